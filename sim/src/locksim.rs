//! `locksim` — decides the concurrency half of C19: single container operations issued from
//! several runtimes sharing a list / map are atomic (linearizable against a sequential model),
//! never panic and never deadlock. Real threads, real `parking_lot::RwLock`, scheduling owned
//! by the baton scheduler in `sched.rs`.

use crate::campaign::{RunReport, ViolationReport, Worker};
use crate::host::{self, Host, HostSettings};
use crate::known::KnownFindings;
use crate::linz::{HistOp, linearize};
use crate::rng::{Digest, Rng};
use crate::sched::{self, Sched, SchedAbort, Strategy};
use koto::prelude::*;
use serde_json::{Value, json};
use std::collections::BTreeSet;
use std::panic::{AssertUnwindSafe, catch_unwind};
use std::sync::{Arc, Barrier};

// ---------------------------------------------------------------------------------------------
// Operations and their sequential specification

#[derive(Clone, Debug, Hash, PartialEq, Eq)]
pub enum Op {
    // list, class A
    Push(i64),
    Pop,
    Insert(usize, i64),
    Remove(usize),
    Clear,
    Fill(i64),
    Resize(usize, i64),
    Reverse,
    Sort,
    Extend(i64, i64),
    ExtendTuple(i64, i64),
    First,
    Last,
    Get(usize),
    Contains(i64),
    IsEmpty,
    ToTuple,
    Size,
    Index(usize),
    IndexAssign(usize, i64),
    Slice(usize, usize),
    SliceAssign(usize, usize, i64),
    AddLit(i64),
    EqLit(Vec<i64>),
    Copy,
    Display,
    EqSelf,
    NeSelf,
    AddSelf,
    RetainValue(i64),
    /// `own = [a, b]; shared.swap own; own.to_tuple()`: the shared list is exchanged with a
    /// thread-private one (one shared container involved)
    SwapOwn(i64, i64),
    /// `own = [a]; own.extend shared; own.to_tuple()`: a snapshot read into a private list
    ExtendOwnFromShared(i64),
    /// `match shared` / `(first, rest...) then (size rest) + 1` / `() then 0`: the size, through
    /// a slice of the list (match patterns with `...`)
    MatchRest,
    /// `match shared` / `(others..., last) then last` / `else -1`
    MatchLast,
    /// `shared.extend shared`: the list doubled (one container on both sides)
    ExtendSelf,
    /// `shared.swap shared`: nothing changes
    SwapSelf,
    /// `smap.extend smap`: nothing changes
    MExtendSelf,
    /// `shared.extend a..a+3` (the generic-iterable arm of list.extend)
    ExtendRange(i64),
    /// `shared.extend (a..a+3).each |v| v` (an adaptor chain as the iterable)
    ExtendIter(i64),
    // map, class A
    MInsert(String, i64),
    MRemove(String),
    MGet(String),
    MGetIndex(usize),
    MContainsKey(String),
    MClear,
    MExtend(String, i64),
    MSort,
    MAccess(String),
    MAccessAssign(String, i64),
    MIndex(usize),
    MIndexAssign(usize, String, i64),
    MSize,
    MAddLit(String, i64),
    MEqLit(Vec<(String, i64)>),
    MCopy,
    MDisplay,
    MEqSelf,
    /// `smap == smap.with_meta {…}`: same data, different meta map (one container, two handles
    /// created by the operation itself)
    MEqMetaView,
    /// `smap.extend (('k', v),)` through the generic-iterable arm
    MExtendIter(String, i64),
    /// `own = {}; own.extend smap; own`: the shared map as the ARGUMENT of extend (one read)
    MExtendOwnFromShared,
    /// `own = {z: 0}; own + smap` hmm: a fresh map built from a literal and the shared map
    MAddOwn,
    // class N: not atomic by construction (user callbacks / one lock per element)
    NForCount,
    NToList,
    NRetainPred,
    NSortKey,
    NTransform,
    NMapKeys,
    NMapUpdate(String),
    NMapForCount,
    /// `(|(first, ...)| first)(smap)`: the map handed to a function that unpacks its argument
    /// by position (entries read one at a time)
    NMapUnpackArg,
    /// `match smap` / `(a, b) then 2` / `(first, ...) then 1` / `else 0`
    NMapMatch,
    /// an operation whose callback (or iterable argument) reads the container the operation is
    /// working on: see `REENTRANT`
    NReentrant(u8),
}

/// (targets the list, script): the callback touches the same shared container. Whatever the
/// operation does with its borrow while user code runs, it must not block on itself (arc) or
/// panic (rc).
pub const REENTRANT: &[(bool, &str)] = &[
    (true, "shared.transform |x| x + 0 * (size shared)\nnull"),
    (true, "shared.extend (0..2).each |x| 7000 + x + 0 * (size shared)\nnull"),
    (true, "shared.retain |x| (size shared) >= 0\nnull"),
    (true, "shared.sort |x| -x + 0 * (size shared)\nnull"),
    (true, "shared.find |x| (size shared) < 0"),
    (false, "smap.sort |k, v| v + 0 * (size smap)\nnull"),
    (false, "smap.extend (0..1).each |x| ('a', 7000 + 0 * (size smap))\nnull"),
    (false, "smap.update 'a', 0, |v| v + 0 * (size smap)"),
    (false, "smap.each(|(k, v)| v + size smap).count()"),
    // … and callbacks that MODIFY the container the operation is working on
    (true, "shared.transform |x|\n  shared.pop()\n  x\nnull"),
    (true, "shared.retain |x|\n  if (size shared) < 8\n    shared.push 0\n  true\nnull"),
    (true, "shared.sort |x|\n  shared.push 0\n  -x\nnull"),
    (true, "shared.extend (0..2).each |x|\n  shared.push 5\n  x\nnull"),
    (true, "shared.find |x|\n  shared.clear()\n  false"),
    (false, "smap.update 'a', 0, |v|\n  smap.insert 'zz', 1\n  v"),
    (false, "smap.sort |k, v|\n  smap.remove 'b'\n  v\nnull"),
    (false, "smap.extend (0..1).each |x|\n  smap.insert 'yy', 2\n  ('a', 1)\nnull"),
    (false, "smap.each(|(k, v)| smap.remove k).count()"),
];

impl Op {
    pub fn class_a(&self) -> bool {
        !matches!(
            self,
            Op::NForCount
                | Op::NToList
                | Op::NRetainPred
                | Op::NSortKey
                | Op::NTransform
                | Op::NMapKeys
                | Op::NMapUpdate(_)
                | Op::NMapForCount
                | Op::NMapUnpackArg
                | Op::NMapMatch
                | Op::NReentrant(_)
                // a match is several instructions (size check, then element / slice reads):
                // not one container operation, checked for panic / deadlock only
                | Op::MatchRest
                | Op::MatchLast
        )
    }

    pub fn script(&self) -> String {
        use Op::*;
        match self {
            Push(v) => format!("shared.push {v}\nnull"),
            Pop => "shared.pop()".into(),
            Insert(i, v) => format!("shared.insert {i}, {v}\nnull"),
            Remove(i) => format!("shared.remove {i}"),
            Clear => "shared.clear()\nnull".into(),
            Fill(v) => format!("shared.fill {v}\nnull"),
            Resize(n, v) => format!("shared.resize {n}, {v}\nnull"),
            Reverse => "shared.reverse()\nnull".into(),
            Sort => "shared.sort()\nnull".into(),
            Extend(a, b) => format!("shared.extend [{a}, {b}]\nnull"),
            ExtendTuple(a, b) => format!("shared.extend ({a}, {b})\nnull"),
            First => "shared.first()".into(),
            Last => "shared.last()".into(),
            Get(i) => format!("shared.get {i}"),
            Contains(v) => format!("shared.contains {v}"),
            IsEmpty => "shared.is_empty()".into(),
            ToTuple => "shared.to_tuple()".into(),
            Size => "size shared".into(),
            Index(i) => format!("shared[{i}]"),
            IndexAssign(i, v) => format!("shared[{i}] = {v}\nnull"),
            Slice(a, b) => format!("shared[{a}..{b}]"),
            SliceAssign(a, b, v) => format!("shared[{a}..{b}] = {v}\nnull"),
            AddLit(v) => format!("shared + [{v}]"),
            EqLit(vs) => format!("shared == {}", fmt_list(vs)),
            Copy => "koto.copy shared".into(),
            Display => "'{shared}'".into(),
            EqSelf => "shared == shared".into(),
            NeSelf => "shared != shared".into(),
            AddSelf => "shared + shared".into(),
            RetainValue(v) => format!("shared.retain {v}\nnull"),
            SwapOwn(a, b) => format!("own = [{a}, {b}]\nshared.swap own\nown.to_tuple()"),
            ExtendOwnFromShared(a) => format!("own = [{a}]\nown.extend shared\nown.to_tuple()"),
            MatchRest => "match shared\n  (first, rest...) then (size rest) + 1\n  () then 0\n  else -1".into(),
            MatchLast => "match shared\n  (others..., last) then last\n  else -1".into(),
            ExtendSelf => "shared.extend shared\nnull".into(),
            SwapSelf => "shared.swap shared\nnull".into(),
            MExtendSelf => "smap.extend smap\nnull".into(),
            MExtendOwnFromShared => "own = {}\nown.extend smap\nown".into(),
            MAddOwn => "own = {}\nown + smap".into(),
            ExtendRange(a) => format!("shared.extend {a}..{}\nnull", a + 3),
            ExtendIter(a) => format!("shared.extend ({a}..{}).each |v| v\nnull", a + 3),
            MInsert(k, v) => format!("smap.insert '{k}', {v}"),
            MRemove(k) => format!("smap.remove '{k}'"),
            MGet(k) => format!("smap.get '{k}'"),
            MGetIndex(i) => format!("smap.get_index {i}"),
            MContainsKey(k) => format!("smap.contains_key '{k}'"),
            MClear => "smap.clear()\nnull".into(),
            MExtend(k, v) => format!("smap.extend {{{k}: {v}}}\nnull"),
            MSort => "smap.sort()\nnull".into(),
            MAccess(k) => format!("smap.{k}"),
            MAccessAssign(k, v) => format!("smap.{k} = {v}\nnull"),
            MIndex(i) => format!("smap[{i}]"),
            MIndexAssign(i, k, v) => format!("smap[{i}] = ('{k}', {v})\nnull"),
            MSize => "size smap".into(),
            MAddLit(k, v) => format!("smap + {{{k}: {v}}}"),
            MEqLit(kv) => format!("smap == {}", fmt_map(kv)),
            MCopy => "koto.copy smap".into(),
            MDisplay => "'{smap}'".into(),
            MEqSelf => "smap == smap".into(),
            MEqMetaView => "v = smap.with_meta {@type: 'View'}\nsmap == v".into(),
            MExtendIter(k, v) => format!("smap.extend ((('{k}', {v}),).each |e| e)\nnull"),
            NForCount => "c = 0\nfor x in shared\n  c += 1\nc".into(),
            NToList => "shared.to_list().to_tuple()".into(),
            NRetainPred => "shared.retain |x| x % 2 == 0\nnull".into(),
            NSortKey => "shared.sort |x| -x\nnull".into(),
            NTransform => "shared.transform |x| x + 0\nnull".into(),
            NMapKeys => "smap.keys().to_tuple()".into(),
            NMapUpdate(k) => format!("smap.update '{k}', 0, |v| v + 1"),
            NMapForCount => "c = 0\nfor k, v in smap\n  c += 1\nc".into(),
            NMapUnpackArg => "(|(first, ...)| first)(smap)".into(),
            NMapMatch => "match smap\n  (a, b) then 2\n  (first, ...) then 1\n  else 0".into(),
            NReentrant(i) => REENTRANT[*i as usize].1.into(),
        }
    }
}

#[derive(Clone, Debug, Hash, PartialEq, Eq, Default)]
pub struct Model {
    pub list: Vec<i64>,
    pub map: Vec<(String, i64)>,
}

pub fn fmt_list(v: &[i64]) -> String {
    format!(
        "[{}]",
        v.iter().map(|x| x.to_string()).collect::<Vec<_>>().join(", ")
    )
}

pub fn fmt_tuple(v: &[i64]) -> String {
    format!(
        "({})",
        v.iter().map(|x| x.to_string()).collect::<Vec<_>>().join(", ")
    )
}

pub fn fmt_map(v: &[(String, i64)]) -> String {
    format!(
        "{{{}}}",
        v.iter()
            .map(|(k, x)| format!("{k}: {x}"))
            .collect::<Vec<_>>()
            .join(", ")
    )
}

const ERR: &str = "ERR";

fn opt(v: Option<i64>) -> String {
    v.map(|x| x.to_string()).unwrap_or_else(|| "null".into())
}

/// The sequential specification: total function (state, op) -> (state', observation)
pub fn apply(m: &mut Model, op: &Op) -> String {
    use Op::*;
    let null = || "null".to_string();
    match op {
        Push(v) => {
            m.list.push(*v);
            null()
        }
        Pop => opt(m.list.pop()),
        Insert(i, v) => {
            if *i > m.list.len() {
                ERR.into()
            } else {
                m.list.insert(*i, *v);
                null()
            }
        }
        Remove(i) => {
            if *i >= m.list.len() {
                ERR.into()
            } else {
                m.list.remove(*i).to_string()
            }
        }
        Clear => {
            m.list.clear();
            null()
        }
        Fill(v) => {
            for x in m.list.iter_mut() {
                *x = *v;
            }
            null()
        }
        Resize(n, v) => {
            m.list.resize(*n, *v);
            null()
        }
        Reverse => {
            m.list.reverse();
            null()
        }
        Sort => {
            m.list.sort();
            null()
        }
        Extend(a, b) | ExtendTuple(a, b) => {
            m.list.push(*a);
            m.list.push(*b);
            null()
        }
        First => opt(m.list.first().copied()),
        Last => opt(m.list.last().copied()),
        Get(i) => opt(m.list.get(*i).copied()),
        Contains(v) => m.list.contains(v).to_string(),
        IsEmpty => m.list.is_empty().to_string(),
        ToTuple => fmt_tuple(&m.list),
        Size => m.list.len().to_string(),
        Index(i) => match m.list.get(*i) {
            Some(v) => v.to_string(),
            None => ERR.into(),
        },
        IndexAssign(i, v) => {
            if *i < m.list.len() {
                m.list[*i] = *v;
                null()
            } else {
                ERR.into()
            }
        }
        Slice(a, b) => {
            let len = m.list.len();
            let s = (*a).min(len);
            let e = (*b).clamp(s, len);
            fmt_list(&m.list[s..e])
        }
        SliceAssign(a, b, v) => {
            let len = m.list.len();
            let s = (*a).min(len);
            let e = (*b).clamp(s, len);
            for x in &mut m.list[s..e] {
                *x = *v;
            }
            null()
        }
        AddLit(v) => {
            let mut l = m.list.clone();
            l.push(*v);
            fmt_list(&l)
        }
        EqLit(vs) => (m.list == *vs).to_string(),
        Copy | Display => fmt_list(&m.list),
        EqSelf => "true".into(),
        NeSelf => "false".into(),
        AddSelf => {
            let mut l = m.list.clone();
            l.extend(m.list.iter().copied());
            fmt_list(&l)
        }
        RetainValue(v) => {
            m.list.retain(|x| x == v);
            null()
        }
        SwapOwn(a, b) => {
            let old = std::mem::replace(&mut m.list, vec![*a, *b]);
            fmt_tuple(&old)
        }
        ExtendSelf => {
            let copy = m.list.clone();
            m.list.extend(copy);
            null()
        }
        SwapSelf | MExtendSelf => null(),
        ExtendOwnFromShared(a) => {
            let mut own = vec![*a];
            own.extend(m.list.iter().copied());
            fmt_tuple(&own)
        }
        ExtendRange(a) | ExtendIter(a) => {
            m.list.extend([*a, *a + 1, *a + 2]);
            null()
        }
        MInsert(k, v) => {
            if let Some(e) = m.map.iter_mut().find(|(kk, _)| kk == k) {
                let old = e.1;
                e.1 = *v;
                old.to_string()
            } else {
                m.map.push((k.clone(), *v));
                null()
            }
        }
        MRemove(k) => {
            if let Some(ix) = m.map.iter().position(|(kk, _)| kk == k) {
                m.map.remove(ix).1.to_string()
            } else {
                null()
            }
        }
        MGet(k) => opt(m.map.iter().find(|(kk, _)| kk == k).map(|e| e.1)),
        MGetIndex(i) => match m.map.get(*i) {
            Some((k, v)) => format!("('{k}', {v})"),
            None => null(),
        },
        MContainsKey(k) => m.map.iter().any(|(kk, _)| kk == k).to_string(),
        MClear => {
            m.map.clear();
            null()
        }
        MExtend(k, v) => {
            if let Some(e) = m.map.iter_mut().find(|(kk, _)| kk == k) {
                e.1 = *v;
            } else {
                m.map.push((k.clone(), *v));
            }
            null()
        }
        MSort => {
            m.map.sort_by(|a, b| a.0.cmp(&b.0));
            null()
        }
        MAccess(k) => match m.map.iter().find(|(kk, _)| kk == k) {
            Some(e) => e.1.to_string(),
            None => ERR.into(),
        },
        MAccessAssign(k, v) => {
            if let Some(e) = m.map.iter_mut().find(|(kk, _)| kk == k) {
                e.1 = *v;
            } else {
                m.map.push((k.clone(), *v));
            }
            null()
        }
        MIndex(i) => match m.map.get(*i) {
            Some((k, v)) => format!("('{k}', {v})"),
            None => ERR.into(),
        },
        MIndexAssign(i, k, v) => {
            // the key is fresh by construction of the workload
            if *i < m.map.len() {
                m.map[*i] = (k.clone(), *v);
                null()
            } else {
                ERR.into()
            }
        }
        MSize => m.map.len().to_string(),
        MAddLit(k, v) => {
            let mut mm = m.map.clone();
            if let Some(e) = mm.iter_mut().find(|(kk, _)| kk == k) {
                e.1 = *v;
            } else {
                mm.push((k.clone(), *v));
            }
            fmt_map(&mm)
        }
        MEqLit(kv) => {
            // map equality in koto is order-sensitive? decided by the sequential self-check
            (m.map == *kv).to_string()
        }
        MCopy | MDisplay | MExtendOwnFromShared | MAddOwn => fmt_map(&m.map),
        MEqSelf | MEqMetaView => "true".into(),
        MExtendIter(k, v) => {
            if let Some(e) = m.map.iter_mut().find(|(kk, _)| kk == k) {
                e.1 = *v;
            } else {
                m.map.push((k.clone(), *v));
            }
            null()
        }
        // class N operations have no sequential specification
        _ => "N/A".into(),
    }
}

// ---------------------------------------------------------------------------------------------
// Workload generation

#[derive(Clone, Debug)]
pub struct Workload {
    pub init_list: Vec<i64>,
    pub init_map: Vec<(String, i64)>,
    pub threads: Vec<Vec<Op>>,
}

impl Workload {
    pub fn all_class_a(&self) -> bool {
        self.threads.iter().flatten().all(|o| o.class_a())
    }
    pub fn op_count(&self) -> usize {
        self.threads.iter().map(|t| t.len()).sum()
    }
}

const KEYS: &[&str] = &["a", "b", "c"];

fn gen_op(r: &mut Rng, thread: usize, n: &mut i64, target_list: bool, allow_n: bool) -> Op {
    let mut fresh = || {
        *n += 1;
        (thread as i64 + 1) * 1000 + *n
    };
    let key = |r: &mut Rng| r.pick(KEYS).to_string();
    let ix = |r: &mut Rng| r.usize_below(4);
    if allow_n && r.chance(1, 10) {
        let candidates: Vec<u8> = REENTRANT
            .iter()
            .enumerate()
            .filter(|(_, (list, _))| *list == target_list)
            .map(|(i, _)| i as u8)
            .collect();
        return Op::NReentrant(*r.pick(&candidates));
    }
    if allow_n && r.chance(1, 4) {
        return if target_list {
            r.pick(&[
                Op::NForCount,
                Op::NToList,
                Op::NRetainPred,
                Op::NSortKey,
                Op::NTransform,
                Op::MatchRest,
                Op::MatchLast,
            ])
            .clone()
        } else {
            match r.below(5) {
                0 => Op::NMapKeys,
                1 => Op::NMapUpdate(key(r)),
                2 => Op::NMapUnpackArg,
                3 => Op::NMapMatch,
                _ => Op::NMapForCount,
            }
        };
    }
    if target_list {
        match r.below(40) {
            0..=3 => Op::Push(fresh()),
            4..=5 => Op::Pop,
            6..=8 => Op::Insert(ix(r), fresh()),
            9..=11 => Op::Remove(ix(r)),
            12 => Op::Clear,
            13 => Op::Fill(fresh()),
            14 => Op::Resize(r.usize_below(5), fresh()),
            15 => Op::Reverse,
            16 => Op::Sort,
            17 => Op::Extend(fresh(), fresh()),
            18 => Op::ExtendTuple(fresh(), fresh()),
            19 => Op::First,
            20 => Op::Last,
            21 => Op::Get(ix(r)),
            22 => Op::Contains(1001),
            23 => {
                if r.chance(1, 2) {
                    Op::IsEmpty
                } else {
                    Op::Size
                }
            }
            24 => Op::ToTuple,
            25..=26 => Op::Index(ix(r)),
            27 => Op::IndexAssign(ix(r), fresh()),
            28 => {
                let a = ix(r);
                Op::Slice(a, a + r.usize_below(3))
            }
            29 => {
                let a = ix(r);
                Op::SliceAssign(a, a + r.usize_below(3), fresh())
            }
            30 => match r.below(3) {
                0 => Op::AddLit(fresh()),
                1 => Op::Copy,
                _ => Op::Display,
            },
            31 => Op::EqLit(vec![1, 2]),
            32 => match r.below(3) {
                0 => Op::EqSelf,
                1 => Op::NeSelf,
                _ => Op::AddSelf,
            },
            33 => Op::RetainValue(1),
            34..=35 => Op::SwapOwn(fresh(), fresh()),
            36 => Op::ExtendOwnFromShared(fresh()),
            37 if r.chance(1, 2) => {
                if r.chance(1, 2) { Op::ExtendSelf } else { Op::SwapSelf }
            }

            37..=38 => Op::ExtendRange(fresh() * 10),
            _ => Op::ExtendIter(fresh() * 10),
        }
    } else {
        match r.below(24) {
            0..=3 => Op::MInsert(key(r), fresh()),
            4..=5 => Op::MRemove(key(r)),
            6 => Op::MGet(key(r)),
            7 => Op::MGetIndex(ix(r)),
            8 => Op::MContainsKey(key(r)),
            9 => Op::MClear,
            10 => Op::MExtend(key(r), fresh()),
            11 => Op::MSort,
            12..=13 => Op::MAccess(key(r)),
            14 => Op::MAccessAssign(key(r), fresh()),
            15 => Op::MIndex(ix(r)),
            16 => {
                let v = fresh();
                Op::MIndexAssign(ix(r), format!("k{v}"), v)
            }
            17 => Op::MSize,
            18 => match r.below(3) {
                0 => Op::MAddLit(key(r), fresh()),
                1 => Op::MCopy,
                _ => Op::MDisplay,
            },
            19 => Op::MEqLit(vec![("a".into(), 1)]),
            20 => Op::MEqSelf,
            21 => Op::MEqMetaView,
            22 => Op::MExtendIter(key(r), fresh()),
            23 if r.chance(1, 2) => match r.below(3) {
                0 => Op::MExtendOwnFromShared,
                1 => Op::MAddOwn,
                _ => Op::MExtendSelf,
            },
            _ => Op::MInsert(key(r), fresh()),
        }
    }
}

pub fn gen_workload(seed: u64) -> Workload {
    let mut k = Rng::fork(seed, "knobs");
    let mut r = Rng::fork(seed, "scenario");
    let nthreads = if k.chance(1, 3) { 3 } else { 2 };
    let allow_n = k.chance(1, 4);
    // which container(s) this run targets: list only / map only / both
    let target = k.below(5); // 0..=2 list, 3 map, 4 both
    let init_len = r.usize_below(5);
    let init_list: Vec<i64> = (0..init_len as i64).map(|i| i + 1).collect();
    let init_map: Vec<(String, i64)> = KEYS
        .iter()
        .take(r.usize_below(4))
        .enumerate()
        .map(|(i, k)| (k.to_string(), i as i64 + 1))
        .collect();
    let max_ops = if nthreads == 3 { 4 } else { 5 };
    let mut threads = vec![];
    for t in 0..nthreads {
        let nops = r.range(1, max_ops) as usize;
        let mut n = 0i64;
        let mut ops = vec![];
        for _ in 0..nops {
            let list = match target {
                0..=2 => true,
                3 => false,
                _ => r.chance(1, 2),
            };
            ops.push(gen_op(&mut r, t, &mut n, list, allow_n));
        }
        threads.push(ops);
    }
    Workload {
        init_list,
        init_map,
        threads,
    }
}

pub fn gen_strategy(seed: u64, workload: &Workload) -> Strategy {
    let mut r = Rng::fork(seed, "strategy");
    if r.chance(1, 2) {
        Strategy::RandomWalk {
            stickiness: *r.pick(&[1u64, 2, 4]),
        }
    } else {
        let depth = r.range(1, 3);
        // expected number of scheduling points: ~3 per operation
        let horizon = (workload.op_count() as u64 * 3).max(4);
        let change_points = (0..depth).map(|_| r.below(horizon)).collect();
        Strategy::Pct { change_points }
    }
}

// ---------------------------------------------------------------------------------------------
// Execution

#[derive(Clone, Debug, Default)]
pub struct Outcome {
    /// completed operations with stamps and rendered observations
    pub history: Vec<HistOp<Op>>,
    /// (thread, op index, message)
    pub panics: Vec<(usize, usize, String)>,
    pub deadlock: Option<String>,
    pub harness_error: Option<String>,
    pub final_list: String,
    pub final_map: String,
    pub decisions: Vec<u8>,
    pub interleaving: u64,
    pub lock_events: u64,
    pub sched_points: u64,
    pub context_switches: u64,
    pub preemptions_inside_op: u64,
    pub try_intents_on_shared: u64,
    pub blocked_events: u64,
    pub claims_made: u64,
    pub replay_diverged: bool,
}

fn make_shared(w: &Workload) -> (KList, KMap) {
    let list = KList::from_slice(
        &w.init_list
            .iter()
            .map(|v| KValue::from(*v))
            .collect::<Vec<_>>(),
    );
    let map = KMap::new();
    for (k, v) in &w.init_map {
        map.insert(k.as_str(), *v);
    }
    (list, map)
}

fn render(koto: &mut Koto, r: Result<KValue, String>) -> String {
    match r {
        Ok(v) => koto
            .value_to_string(v)
            .unwrap_or_else(|e| format!("<display error {e}>")),
        Err(_) => ERR.to_string(),
    }
}

/// Runs the workload sequentially on one instance, thread after thread
/// (used for the model self-check: no concurrency involved)
pub fn run_sequential(w: &Workload, order: &[(usize, usize)]) -> Result<Vec<String>, String> {
    let (list, map) = make_shared(w);
    let mut host = Host::new(HostSettings::default());
    host.koto.prelude().insert("shared", list.clone());
    host.koto.prelude().insert("smap", map.clone());
    let mut out = vec![];
    for (t, i) in order {
        let script = w.threads[*t][*i].script();
        let r = catch_unwind(AssertUnwindSafe(|| {
            crate::sched::solo(|| host.koto.compile_and_run(&script).map_err(|e| e.to_string()))
        }));
        match r {
            Ok(r) => out.push(render(&mut host.koto, r)),
            Err(_) => {
                return Err(format!(
                    "panic in sequential run of `{script}`: {}",
                    host::take_last_panic().unwrap_or_default()
                ));
            }
        }
    }
    out.push(render(&mut host.koto, Ok(KValue::List(list))));
    out.push(render(&mut host.koto, Ok(KValue::Map(map))));
    Ok(out)
}

#[cfg(feature = "arc")]
pub fn run_concurrent(w: &Workload, strategy: Strategy, seed: u64) -> Outcome {
    sched::install_global_hook();
    let (list, map) = make_shared(w);
    // the lock addresses of the shared containers, discovered with a recording pass
    let addrs = sched::record_addresses(|| {
        let _ = list.len();
        let _ = map.len();
    });
    let nthreads = w.threads.len();
    let sched = Sched::new(nthreads, &addrs, strategy, seed, 20_000);
    let barrier = Arc::new(Barrier::new(nthreads + 1));

    struct ThreadResult {
        ops: Vec<(u64, u64, String)>,
        panic: Option<(usize, String)>,
        error: Option<String>,
    }

    let mut handles = vec![];
    for (tid, ops) in w.threads.iter().enumerate() {
        let ops = ops.clone();
        let list = list.clone();
        let map = map.clone();
        let sched = sched.clone();
        let barrier = barrier.clone();
        let h = std::thread::Builder::new()
            .stack_size(8 << 20)
            .spawn(move || {
                let mut res = ThreadResult {
                    ops: vec![],
                    panic: None,
                    error: None,
                };
                let mut host = Host::new(HostSettings {
                    run_tests: false,
                    ..Default::default()
                });
                host.koto.prelude().insert("shared", list);
                host.koto.prelude().insert("smap", map);
                let mut chunks = vec![];
                for op in &ops {
                    match host.koto.compile(&op.script()) {
                        Ok(c) => chunks.push(c),
                        Err(e) => {
                            res.error = Some(format!("compile error in `{}`: {e}", op.script()))
                        }
                    }
                }
                barrier.wait();
                let mut raw: Vec<(u64, u64, Result<KValue, String>)> = vec![];
                if res.error.is_none() {
                    sched::attach(&sched, tid);
                    let koto = &mut host.koto;
                    let body = catch_unwind(AssertUnwindSafe(|| {
                        sched.wait_for_start(tid);
                        for (i, chunk) in chunks.into_iter().enumerate() {
                            let inv = sched.op_begin(tid);
                            let r = catch_unwind(AssertUnwindSafe(|| {
                                koto.run(chunk).map_err(|e| e.to_string())
                            }));
                            match r {
                                Ok(r) => {
                                    let ret = sched.op_end(tid);
                                    raw.push((inv, ret, r));
                                }
                                Err(p) => {
                                    if p.downcast_ref::<SchedAbort>().is_some() {
                                        std::panic::resume_unwind(p);
                                    }
                                    return Some((
                                        i,
                                        host::take_last_panic().unwrap_or_else(|| "panic".into()),
                                    ));
                                }
                            }
                        }
                        None
                    }));
                    match body {
                        Ok(p) => res.panic = p,
                        Err(p) => {
                            if p.downcast_ref::<SchedAbort>().is_none() {
                                res.error = Some(format!(
                                    "unexpected panic in harness thread: {}",
                                    host::take_last_panic().unwrap_or_default()
                                ));
                            }
                        }
                    }
                    sched.finish(tid);
                    sched::detach();
                } else {
                    sched.finish(tid);
                }
                sched.wait_phase_over();
                for (inv, ret, r) in raw {
                    let s = render(&mut host.koto, r);
                    res.ops.push((inv, ret, s));
                }
                res
            })
            .expect("spawn");
        handles.push(h);
    }
    barrier.wait();
    sched.run_to_completion();
    let mut out = Outcome::default();
    for (tid, h) in handles.into_iter().enumerate() {
        match h.join() {
            Ok(res) => {
                for (i, (inv, ret, obs)) in res.ops.into_iter().enumerate() {
                    out.history.push(HistOp {
                        thread: tid,
                        invoke: inv,
                        ret,
                        op: w.threads[tid][i].clone(),
                        obs,
                    });
                }
                if let Some((i, msg)) = res.panic {
                    out.panics.push((tid, i, msg));
                }
                if let Some(e) = res.error {
                    out.harness_error.get_or_insert(e);
                }
            }
            Err(_) => {
                out.harness_error.get_or_insert("worker thread died".into());
            }
        }
    }
    {
        let st = sched.state.lock().unwrap();
        out.deadlock = st.deadlock.clone();
        if let Some(e) = &st.harness_error {
            out.harness_error.get_or_insert(e.clone());
        }
        out.decisions = st.decisions.clone();
        out.interleaving = st.interleaving_signature();
        out.lock_events = st.events.len() as u64;
        out.sched_points = st.sched_points;
        out.context_switches = st.context_switches;
        out.preemptions_inside_op = st.preemptions_inside_op;
        out.try_intents_on_shared = st.try_intents_on_shared;
        out.blocked_events = st.blocked_events;
        out.claims_made = st.claims_made;
        out.replay_diverged = st.replay_diverged;
    }
    let mut host = Host::new(HostSettings::default());
    out.final_list = render(&mut host.koto, Ok(KValue::List(list)));
    out.final_map = render(&mut host.koto, Ok(KValue::Map(map)));
    out
}

// ---------------------------------------------------------------------------------------------
// Oracle

#[derive(Clone, Debug, PartialEq)]
pub struct Violation {
    pub class: String,
    pub detail: String,
}

pub fn init_model(w: &Workload) -> Model {
    Model {
        list: w.init_list.clone(),
        map: w.init_map.clone(),
    }
}

pub fn check(w: &Workload, o: &Outcome) -> Option<Violation> {
    if let Some(e) = &o.harness_error {
        return Some(Violation {
            class: "harness:error".into(),
            detail: e.clone(),
        });
    }
    if o.replay_diverged {
        return Some(Violation {
            class: "harness:replay-diverged".into(),
            detail: "recorded decisions not applicable".into(),
        });
    }
    if let Some((t, i, msg)) = o.panics.first() {
        return Some(Violation {
            class: "panic".into(),
            detail: format!(
                "thread {t} op {i} `{}` panicked: {}",
                w.threads[*t][*i].script().replace('\n', "; "),
                msg.replace('\n', " ")
            ),
        });
    }
    if let Some(d) = &o.deadlock {
        return Some(Violation {
            class: "deadlock".into(),
            detail: d.clone(),
        });
    }
    if w.all_class_a() {
        let init = init_model(w);
        let fl = o.final_list.clone();
        let fm = o.final_map.clone();
        let final_check = move |s: &Model| fmt_list(&s.list) == fl && fmt_map(&s.map) == fm;
        if linearize(&init, &o.history, &apply, &final_check).is_none() {
            let hist = o
                .history
                .iter()
                .map(|h| {
                    format!(
                        "t{}[{}..{}] `{}` -> {}",
                        h.thread,
                        h.invoke,
                        h.ret,
                        h.op.script().replace('\n', "; "),
                        h.obs
                    )
                })
                .collect::<Vec<_>>()
                .join(" | ");
            return Some(Violation {
                class: "not-linearizable".into(),
                detail: format!(
                    "init list {} map {}; history: {hist}; final list {} map {}",
                    fmt_list(&w.init_list),
                    fmt_map(&w.init_map),
                    o.final_list,
                    o.final_map
                ),
            });
        }
    }
    None
}

/// Self-contained scripts (no shared container, no second thread) in which code that a container
/// operation calls back into — an element's overloaded operator, `@display`, a loop body — reads
/// or modifies the container the operation is working on. They must complete: a panic (rc) or
/// a self-deadlock (arc) is a violation. (id, script)
pub const SOLO_SCRIPTS: &[(&str, &str)] = &[
    ("sort-elements-lt-reads-list", "l = []\no =\n  @<: |other| (size l) > 100\nl.push o\nl.push o\nl.sort()\nsize l\n"),
    ("retain-value-elements-eq-reads-list", "l = []\no =\n  @==: |other| (size l) > 100\nl.push o\nl.push o\nl.retain o\nsize l\n"),
    ("contains-elements-eq-reads-list", "l = []\no =\n  @==: |other| (size l) > 100\nl.push o\nl.push o\nl.contains o\n"),
    ("display-elements-read-list", "l = []\no =\n  @display: || 'o{size l}'\nl.push o\nl.push o\n'{l}'\n"),
    ("eq-elements-read-list", "l = []\no =\n  @==: |other| (size l) > 100\nl.push o\nl.push o\nl == [o, o]\n"),
    ("min-elements-lt-reads-list", "l = []\no =\n  @<: |other| (size l) > 100\nl.push o\nl.push o\nx = l.min()\nsize l\n"),
    ("map-display-values-read-map", "m = {}\no =\n  @display: || 'o{size m}'\nm.a = o\nm.b = o\n'{m}'\n"),
    ("map-eq-values-read-map", "m = {}\no =\n  @==: |other| (size m) > 100\nm.a = o\nm == {a: o}\n"),
    ("each-pushes", "l = [1, 2]\nn = l.each(|x| l.push x).take(3).count()\n'{n} {size l}'\n"),
    ("for-pushes", "l = [1, 2, 3]\nfor x in l\n  if (size l) < 6\n    l.push x\nsize l\n"),
    ("map-for-removes", "m = {a: 1, b: 2, c: 3}\nfor k, v in m\n  m.remove 'c'\nsize m\n"),
    ("nested-transform-reads-outer", "l = [[1], [2]]\nl.transform |x| x.transform |y| y + size l\n'{l}'\n"),
    ("keys-iterator-inserts", "m = {a: 1}\nfor k in m.keys()\n  if (size m) < 4\n    m.insert '{k}x', 1\nsize m\n"),
    ("list-display-element-clears", "l = []\no =\n  @display: ||\n    l.clear()\n    'o'\nl.push o\nl.push o\n'{l}'\n"),
    ("index-assign-value-from-callback", "l = [1, 2]\nl[0] = (|| size l)()\n'{l}'\n"),
    ("map-get-default-reads", "m = {a: 1}\nm.get('zz', size m)\n"),
    // an OBJECT of the core library entered again while it is mutably borrowed: the inner
    // access must fail (both memory strategies), not wait
    ("peekable-reentrant", "holder = {}\ngen = ||\n  yield 1\n  yield holder.p.peek()\n  yield 3\nholder.p = gen().peekable()\nresult = []\ntry\n  for x in holder.p\n    result.push x\n  result.push 'finished'\ncatch error\n  result.push 'caught'\n'{result}'\n"),
    ("peekable-reentrant-next", "holder = {}\ngen = ||\n  yield 1\n  yield holder.p.next()\nholder.p = gen().peekable()\nr = try\n  holder.p.to_list()\ncatch e\n  'caught'\n'{r}'\n"),
];

/// Runs one solo script on a fresh instance under the solo guard
pub fn run_solo(script: &str) -> Result<String, String> {
    // The script runs on a thread of its own, so that an operation that WAITS (a `try_` borrow
    // that cannot be granted must fail; the lock hook cannot see whether it does) is noticed:
    // the only use of real time in this engine, as a hang detector with a generous bound for a
    // script that takes microseconds. A thread that hangs is left behind.
    let (tx, rx) = std::sync::mpsc::channel();
    let owned = script.to_string();
    let spawned = std::thread::Builder::new().name("solo".into()).spawn(move || {
        let _ = tx.send(run_solo_here(&owned));
    });
    if spawned.is_err() {
        return run_solo_here(script);
    }
    match rx.recv_timeout(std::time::Duration::from_secs(SOLO_HANG_SECS)) {
        Ok(r) => r,
        Err(_) => Err(format!(
            "panic in sequential run of `{}`: {}: the only running thread did not return within {SOLO_HANG_SECS} s of real time (it waits for a lock it holds itself)",
            script.trim_end(),
            crate::sched::SELF_DEADLOCK
        )),
    }
}

pub const SOLO_HANG_SECS: u64 = 60;

fn run_solo_here(script: &str) -> Result<String, String> {
    let mut host = Host::new(HostSettings::default());
    let r = catch_unwind(AssertUnwindSafe(|| {
        crate::sched::solo(|| host.koto.compile_and_run(script).map_err(|e| e.to_string()))
    }));
    match r {
        Ok(r) => Ok(match r {
            Ok(v) => host
                .koto
                .value_to_string(v)
                .unwrap_or_else(|e| format!("<display error {e}>")),
            Err(e) => format!("ERR {}", crate::host::first_line(&e)),
        }),
        Err(_) => Err(format!(
            "panic in sequential run of `{}`: {}",
            script.trim_end(),
            host::take_last_panic().unwrap_or_default()
        )),
    }
}

/// A panic (rc: the borrow flag) or a self-deadlock (arc: the only running thread waits for a
/// lock it holds) while ONE thread runs the operations one after the other is not a model
/// problem: no schedule is involved, the operation cannot complete on its own
pub fn sequential_violation(e: &str) -> Option<Violation> {
    if !e.starts_with("panic in sequential run") {
        return None;
    }
    let class = if e.contains(crate::sched::SELF_DEADLOCK) { "deadlock" } else { "panic" };
    Some(Violation {
        class: class.into(),
        detail: e.replace('\n', " / "),
    })
}

/// The workload reduced to the one operation that cannot complete sequentially
pub fn reduce_to_failing_op(w: &Workload) -> Workload {
    for ops in &w.threads {
        for op in ops {
            let mut w1 = w.clone();
            w1.threads = vec![vec![op.clone()]];
            if let Some(e) = self_check(&w1)
                && sequential_violation(&e).is_some()
            {
                return w1;
            }
        }
    }
    w.clone()
}

pub fn sequential_report(w: &Workload, e: &str) -> Option<crate::campaign::ViolationReport> {
    let v = sequential_violation(e)?;
    let small = reduce_to_failing_op(w);
    let e2 = self_check(&small).unwrap_or_else(|| e.to_string());
    let v2 = sequential_violation(&e2).unwrap_or(v);
    Some(crate::campaign::ViolationReport {
        class: v2.class,
        detail: v2.detail,
        scenario: json!({"workload": workload_to_json(&small), "decisions": [], "sequential": true}),
        extra: json!({"original_operations": w.op_count()}),
        known: None,
    })
}

pub fn replay_sequential(doc: &Value) -> (Option<(String, String)>, u64) {
    if let Some(script) = doc["scenario"]["script"].as_str() {
        return match run_solo(script) {
            Ok(_) => (None, 0),
            Err(e) => match sequential_violation(&e) {
                Some(v) => (Some((v.class, v.detail)), 1),
                None => (None, 0),
            },
        };
    }
    let Some(w) = workload_from_json(&doc["scenario"]["workload"]) else {
        return (Some(("harness:bad-replay-file".into(), "cannot parse workload".into())), 0);
    };
    match self_check(&w).and_then(|e| sequential_violation(&e)) {
        Some(v) => (Some((v.class, v.detail)), 1),
        None => (None, 0),
    }
}

/// Model self-check: the workload executed sequentially (one fixed order) must match the
/// sequential specification exactly; a mismatch is a harness error, never a violation.
pub fn self_check(w: &Workload) -> Option<String> {
    let mut order = vec![];
    for (t, ops) in w.threads.iter().enumerate() {
        for i in 0..ops.len() {
            order.push((t, i));
        }
    }
    let real = match run_sequential(w, &order) {
        Ok(r) => r,
        Err(e) => return Some(e),
    };
    let mut m = init_model(w);
    let mut usable = true;
    for (n, (t, i)) in order.iter().enumerate() {
        let op = &w.threads[*t][*i];
        if !op.class_a() {
            usable = false; // the model does not follow class N mutations
            continue;
        }
        if !usable {
            continue;
        }
        let expect = apply(&mut m, op);
        if expect != real[n] {
            return Some(format!(
                "sequential model mismatch at `{}`: model {expect}, koto {}",
                op.script().replace('\n', "; "),
                real[n]
            ));
        }
    }
    if usable {
        let n = order.len();
        if fmt_list(&m.list) != real[n] || fmt_map(&m.map) != real[n + 1] {
            return Some(format!(
                "sequential model final state mismatch: model {} {}, koto {} {}",
                fmt_list(&m.list),
                fmt_map(&m.map),
                real[n],
                real[n + 1]
            ));
        }
    }
    None
}

// ---------------------------------------------------------------------------------------------
// JSON

pub fn workload_to_json(w: &Workload) -> Value {
    json!({
        "init_list": w.init_list,
        "init_map": w.init_map.iter().map(|(k, v)| json!([k, v])).collect::<Vec<_>>(),
        "threads": w.threads.iter().map(|ops| ops.iter().map(op_to_json).collect::<Vec<_>>()).collect::<Vec<_>>(),
        "scripts": w.threads.iter().map(|ops| ops.iter().map(|o| o.script()).collect::<Vec<_>>()).collect::<Vec<_>>(),
    })
}

fn op_to_json(op: &Op) -> Value {
    // the Debug rendering is stable and parseable enough for our own replay reader
    json!(format!("{op:?}"))
}

fn parse_op(s: &str) -> Option<Op> {
    // format: Name or Name(args) with args: integers, "strings", [vectors]
    let (name, args) = match s.find('(') {
        Some(i) => (&s[..i], &s[i + 1..s.len() - 1]),
        None => (s, ""),
    };
    let parts = split_args(args);
    let int = |i: usize| -> Option<i64> { parts.get(i)?.trim().parse().ok() };
    let us = |i: usize| -> Option<usize> { parts.get(i)?.trim().parse().ok() };
    let st = |i: usize| -> Option<String> { Some(parts.get(i)?.trim().trim_matches('"').to_string()) };
    use Op::*;
    Some(match name {
        "Push" => Push(int(0)?),
        "Pop" => Pop,
        "Insert" => Insert(us(0)?, int(1)?),
        "Remove" => Remove(us(0)?),
        "Clear" => Clear,
        "Fill" => Fill(int(0)?),
        "Resize" => Resize(us(0)?, int(1)?),
        "Reverse" => Reverse,
        "Sort" => Sort,
        "Extend" => Extend(int(0)?, int(1)?),
        "ExtendTuple" => ExtendTuple(int(0)?, int(1)?),
        "First" => First,
        "Last" => Last,
        "Get" => Get(us(0)?),
        "Contains" => Contains(int(0)?),
        "IsEmpty" => IsEmpty,
        "ToTuple" => ToTuple,
        "Size" => Size,
        "Index" => Index(us(0)?),
        "IndexAssign" => IndexAssign(us(0)?, int(1)?),
        "Slice" => Slice(us(0)?, us(1)?),
        "SliceAssign" => SliceAssign(us(0)?, us(1)?, int(2)?),
        "AddLit" => AddLit(int(0)?),
        "EqLit" => EqLit(
            parts
                .first()?
                .trim()
                .trim_matches(|c| c == '[' || c == ']')
                .split(',')
                .filter_map(|x| x.trim().parse().ok())
                .collect(),
        ),
        "Copy" => Copy,
        "Display" => Display,
        "EqSelf" => EqSelf,
        "NeSelf" => NeSelf,
        "AddSelf" => AddSelf,
        "RetainValue" => RetainValue(int(0)?),
        "SwapOwn" => SwapOwn(int(0)?, int(1)?),
        "ExtendOwnFromShared" => ExtendOwnFromShared(int(0)?),
        "MExtendOwnFromShared" => MExtendOwnFromShared,
        "ExtendSelf" => ExtendSelf,
        "MatchRest" => MatchRest,
        "MatchLast" => MatchLast,
        "SwapSelf" => SwapSelf,
        "MExtendSelf" => MExtendSelf,
        "MAddOwn" => MAddOwn,
        "ExtendRange" => ExtendRange(int(0)?),
        "ExtendIter" => ExtendIter(int(0)?),
        "MEqMetaView" => MEqMetaView,
        "MExtendIter" => MExtendIter(st(0)?, int(1)?),
        "MInsert" => MInsert(st(0)?, int(1)?),
        "MRemove" => MRemove(st(0)?),
        "MGet" => MGet(st(0)?),
        "MGetIndex" => MGetIndex(us(0)?),
        "MContainsKey" => MContainsKey(st(0)?),
        "MClear" => MClear,
        "MExtend" => MExtend(st(0)?, int(1)?),
        "MSort" => MSort,
        "MAccess" => MAccess(st(0)?),
        "MAccessAssign" => MAccessAssign(st(0)?, int(1)?),
        "MIndex" => MIndex(us(0)?),
        "MIndexAssign" => MIndexAssign(us(0)?, st(1)?, int(2)?),
        "MSize" => MSize,
        "MAddLit" => MAddLit(st(0)?, int(1)?),
        "MEqLit" => MEqLit(vec![("a".into(), 1)]),
        "MCopy" => MCopy,
        "MDisplay" => MDisplay,
        "MEqSelf" => MEqSelf,
        "NForCount" => NForCount,
        "NToList" => NToList,
        "NRetainPred" => NRetainPred,
        "NSortKey" => NSortKey,
        "NTransform" => NTransform,
        "NMapKeys" => NMapKeys,
        "NMapUpdate" => NMapUpdate(st(0)?),
        "NMapForCount" => NMapForCount,
        "NMapUnpackArg" => NMapUnpackArg,
        "NMapMatch" => NMapMatch,
        "NReentrant" => NReentrant(us(0)? as u8),
        _ => return None,
    })
}

fn split_args(s: &str) -> Vec<String> {
    let mut out = vec![];
    let mut depth = 0;
    let mut cur = String::new();
    for c in s.chars() {
        match c {
            '[' | '(' => {
                depth += 1;
                cur.push(c)
            }
            ']' | ')' => {
                depth -= 1;
                cur.push(c)
            }
            ',' if depth == 0 => {
                out.push(std::mem::take(&mut cur));
            }
            _ => cur.push(c),
        }
    }
    if !cur.trim().is_empty() {
        out.push(cur);
    }
    out
}

pub fn workload_from_json(v: &Value) -> Option<Workload> {
    Some(Workload {
        init_list: v["init_list"]
            .as_array()?
            .iter()
            .filter_map(|x| x.as_i64())
            .collect(),
        init_map: v["init_map"]
            .as_array()?
            .iter()
            .map(|e| (e[0].as_str().unwrap_or("").to_string(), e[1].as_i64().unwrap_or(0)))
            .collect(),
        threads: v["threads"]
            .as_array()?
            .iter()
            .map(|t| {
                t.as_array()
                    .map(|ops| {
                        ops.iter()
                            .filter_map(|o| o.as_str().and_then(parse_op))
                            .collect()
                    })
                    .unwrap_or_default()
            })
            .collect(),
    })
}

// ---------------------------------------------------------------------------------------------
// Minimisation

/// Tries seeded schedules for a workload until one violates with the given class
#[cfg(feature = "arc")]
fn find_failing(
    w: &Workload,
    class: &str,
    seed: u64,
    attempts: u64,
) -> Option<(Outcome, Violation)> {
    for a in 0..attempts {
        let s = crate::rng::mix(seed, a);
        let strategy = gen_strategy(s, w);
        let o = run_concurrent(w, strategy, s);
        if let Some(v) = check(w, &o)
            && v.class == class
        {
            return Some((o, v));
        }
    }
    None
}

#[cfg(feature = "arc")]
pub fn shrink(
    w: &Workload,
    first: (Outcome, Violation),
    seed: u64,
) -> (Workload, Outcome, Violation, usize) {
    let class = first.1.class.clone();
    let mut best = w.clone();
    let mut best_run = first;
    let mut steps = 0;
    loop {
        let mut cands: Vec<Workload> = vec![];
        // drop a whole thread (keep at least two)
        if best.threads.len() > 2 {
            for t in 0..best.threads.len() {
                let mut c = best.clone();
                c.threads.remove(t);
                cands.push(c);
            }
        }
        // drop one operation
        for t in 0..best.threads.len() {
            for i in 0..best.threads[t].len() {
                if best.threads[t].len() > 1 || best.threads.len() > 2 {
                    let mut c = best.clone();
                    c.threads[t].remove(i);
                    if c.threads[t].is_empty() {
                        c.threads.remove(t);
                    }
                    if c.threads.len() >= 2 {
                        cands.push(c);
                    }
                }
            }
        }
        // smaller initial contents
        if !best.init_list.is_empty() {
            let mut c = best.clone();
            c.init_list.pop();
            cands.push(c);
        }
        if !best.init_map.is_empty() {
            let mut c = best.clone();
            c.init_map.pop();
            cands.push(c);
        }
        let mut progressed = false;
        for c in cands {
            steps += 1;
            if let Some(run) = find_failing(&c, &class, crate::rng::mix(seed, steps as u64), 150) {
                best = c;
                best_run = run;
                progressed = true;
                break;
            }
            if steps > 120 {
                break;
            }
        }
        if !progressed || steps > 120 {
            break;
        }
    }
    (best, best_run.0, best_run.1, steps)
}

// ---------------------------------------------------------------------------------------------
// Worker

pub fn features(w: &Workload) -> BTreeSet<String> {
    let mut f = BTreeSet::new();
    for op in w.threads.iter().flatten() {
        let name = format!("{op:?}");
        let name = name.split('(').next().unwrap_or("").to_string();
        f.insert(format!("op:{name}"));
    }
    f.insert(format!("threads:{}", w.threads.len()));
    f.insert(format!("ops:{}", w.op_count()));
    f
}

#[cfg(feature = "arc")]
pub struct LockWorker {
    known: KnownFindings,
}

#[cfg(feature = "arc")]
impl LockWorker {
    pub fn new(known: KnownFindings) -> Self {
        Self { known }
    }
}

pub fn digest(o: &Outcome) -> u64 {
    let mut d = Digest::new();
    for h in &o.history {
        d.u64(h.thread as u64);
        d.u64(h.invoke);
        d.u64(h.ret);
        d.str(&h.obs);
    }
    d.str(&o.final_list);
    d.str(&o.final_map);
    d.u64(o.interleaving);
    d.u64(o.panics.len() as u64);
    d.u64(o.deadlock.is_some() as u64);
    for x in &o.decisions {
        d.u64(*x as u64);
    }
    d.0
}

fn scenario_json(w: &Workload, o: &Outcome) -> Value {
    json!({
        "workload": workload_to_json(w),
        "decisions": o.decisions,
    })
}

#[cfg(feature = "arc")]
impl Worker for LockWorker {
    fn run(&mut self, run_seed: u64, index: u64) -> RunReport {
        let w = gen_workload(run_seed);
        let mut rep = RunReport::default();
        // fault-free configuration first: the sequential model must agree with koto
        if let Some(e) = self_check(&w) {
            match sequential_report(&w, &e) {
                Some(v) => rep.violations.push(v),
                None => rep.harness_error = Some(e),
            }
            return rep;
        }
        let strategy = gen_strategy(run_seed, &w);
        let strategy_name = match &strategy {
            Strategy::RandomWalk { .. } => "random-walk",
            Strategy::Pct { .. } => "pct",
            Strategy::Replay(_) => "replay",
        };
        let o = run_concurrent(&w, strategy, run_seed);
        rep.executions = 2;
        rep.sim_units = o.sched_points;
        rep.digest = digest(&o);
        rep.counters = vec![
            ("lock_events_on_shared", o.lock_events),
            ("scheduling_points", o.sched_points),
            ("context_switches", o.context_switches),
            ("fault.preemption_inside_operation.fired", o.preemptions_inside_op),
            ("fault.blocked_on_lock.fired", o.blocked_events),
            ("fault.writer_claim.fired", o.claims_made),
            ("try_intents_on_shared", o.try_intents_on_shared),
            ("runs.class_a_only", w.all_class_a() as u64),
            ("runs.with_class_n", !w.all_class_a() as u64),
            (
                if strategy_name == "pct" { "runs.pct" } else { "runs.random_walk" },
                1,
            ),
            ("probe.preempted_inside_op", (o.preemptions_inside_op > 0) as u64),
            ("ops_completed", o.history.len() as u64),
        ];
        rep.counters.retain(|(_, v)| *v > 0);
        // non-trivial: a preemption changed the running thread at least once
        if o.context_switches > w.threads.len() as u64 {
            rep.signature = Some(o.interleaving);
        }
        if index < 3 {
            rep.sample = Some(json!({
                "run_seed": run_seed,
                "workload": workload_to_json(&w),
                "strategy": strategy_name,
                "decisions": o.decisions,
                "history": o.history.iter().map(|h| json!({"thread": h.thread, "invoke": h.invoke, "return": h.ret, "op": h.op.script(), "obs": h.obs})).collect::<Vec<_>>(),
                "final_list": o.final_list, "final_map": o.final_map,
            }));
        }
        if let Some(v) = check(&w, &o) {
            if v.class.starts_with("harness:") {
                rep.harness_error = Some(format!("{}: {}", v.class, v.detail));
                return rep;
            }
            let (mw, mo, mv, steps) = shrink(&w, (o.clone(), v.clone()), run_seed);
            // exact replay from the recorded decisions, twice
            let r1 = run_concurrent(&mw, Strategy::Replay(mo.decisions.clone()), 0);
            let r2 = run_concurrent(&mw, Strategy::Replay(mo.decisions.clone()), 0);
            let v1 = check(&mw, &r1);
            if v1.as_ref().map(|x| &x.class) != Some(&mv.class)
                || digest(&r1) != digest(&r2)
                || digest(&r1) != digest(&mo)
            {
                rep.harness_error = Some(format!(
                    "violation {} does not replay exactly from its recorded schedule",
                    mv.class
                ));
                return rep;
            }
            let feats = features(&mw);
            let known = self.known.matches("locksim", &mv.class, &feats);
            rep.violations.push(ViolationReport {
                class: mv.class.clone(),
                detail: mv.detail.clone(),
                scenario: scenario_json(&mw, &mo),
                extra: json!({
                    "features": feats,
                    "original_workload": workload_to_json(&w),
                    "original_violation": {"class": v.class, "detail": v.detail},
                    "shrink_steps": steps,
                    "digest": format!("{:016x}", digest(&mo)),
                    "history": mo.history.iter().map(|h| json!({"thread": h.thread, "invoke": h.invoke, "return": h.ret, "op": h.op.script(), "obs": h.obs})).collect::<Vec<_>>(),
                    "final_list": mo.final_list, "final_map": mo.final_map,
                }),
                known,
            });
        }
        rep
    }
}

#[cfg(feature = "arc")]
pub fn replay(doc: &Value) -> (Option<Violation>, u64) {
    let Some(w) = workload_from_json(&doc["scenario"]["workload"]) else {
        return (
            Some(Violation {
                class: "harness:bad-replay-file".into(),
                detail: "cannot parse workload".into(),
            }),
            0,
        );
    };
    let decisions: Vec<u8> = doc["scenario"]["decisions"]
        .as_array()
        .map(|a| a.iter().filter_map(|x| x.as_u64().map(|x| x as u8)).collect())
        .unwrap_or_default();
    if let Some(v) = self_check(&w).and_then(|e| sequential_violation(&e)) {
        return (Some(v), 1);
    }
    let o = run_concurrent(&w, Strategy::Replay(decisions), 0);
    let dg = digest(&o);
    let mut o2 = o.clone();
    let diverged = o2.replay_diverged;
    o2.replay_diverged = false;
    if let Some(v) = check(&w, &o2) {
        return (Some(v), dg);
    }
    if !diverged {
        return (None, dg);
    }
    // The code under test no longer produces the recorded lock-event sequence (it has been
    // changed since the file was written, e.g. a repaired defect in the regression set): the
    // recorded decisions cannot be followed, so search seeded schedules of the same workload.
    println!("replay: recorded schedule not applicable to this build; searching 400 seeded schedules of the stored workload");
    let seed = doc["run_seed"].as_u64().unwrap_or(1);
    for a in 0..400u64 {
        let s = crate::rng::mix(seed, a);
        let o = run_concurrent(&w, gen_strategy(s, &w), s);
        if let Some(v) = check(&w, &o) {
            return (Some(v), digest(&o));
        }
    }
    (None, dg)
}

// ---------------------------------------------------------------------------------------------
// Validation of the modelled waiting policy against the real lock (real blocking, watchdog).
// This is a self-test of the simulator's stub, not a simulated run: it uses real sleeps.

#[cfg(feature = "arc")]
pub fn validate_policy() -> Result<Vec<String>, String> {
    use parking_lot::RwLock;
    use std::sync::atomic::{AtomicBool, Ordering};
    use std::time::Duration;
    let mut log = vec![];
    // 1. reader holds, writer waits => new read() blocks (try_read fails), read_recursive admitted
    {
        let lock = Arc::new(RwLock::new(0u32));
        let r = lock.read();
        let acquired = Arc::new(AtomicBool::new(false));
        let (l2, a2) = (lock.clone(), acquired.clone());
        let w = std::thread::spawn(move || {
            let mut g = l2.write();
            *g += 1;
            a2.store(true, Ordering::SeqCst);
        });
        std::thread::sleep(Duration::from_millis(60));
        if acquired.load(Ordering::SeqCst) {
            return Err("writer acquired a read-held lock".into());
        }
        if lock.try_read().is_some() {
            return Err("try_read succeeded while a writer is waiting: the model's claim rule (new readers wait behind a waiting writer) does not match the real lock".into());
        }
        if lock.try_read_recursive().is_none() {
            return Err("try_read_recursive failed while only readers hold the lock".into());
        }
        if lock.try_write().is_some() {
            return Err("try_write succeeded on a read-held lock".into());
        }
        // a timed blocking read by the thread that already holds a read guard must not return
        if lock.try_read_for(Duration::from_millis(40)).is_some() {
            return Err("recursive read() admitted while a writer is waiting".into());
        }
        drop(r);
        w.join().map_err(|_| "writer thread panicked")?;
        if !acquired.load(Ordering::SeqCst) {
            return Err("writer never acquired".into());
        }
        log.push("reader-holds/writer-waits: new read blocks, recursive-read variant admitted, writer proceeds after release".to_string());
    }
    // 2. readers share when no writer waits
    {
        let lock = RwLock::new(0u32);
        let _a = lock.read();
        if lock.try_read().is_none() {
            return Err("second reader refused although no writer waits".into());
        }
        if lock.try_write().is_some() {
            return Err("try_write succeeded on a read-held lock".into());
        }
        log.push("readers share while no writer waits".to_string());
    }
    // 3. writer holds: nobody else enters
    {
        let lock = RwLock::new(0u32);
        let _w = lock.write();
        if lock.try_read().is_some() || lock.try_write().is_some() {
            return Err("lock admitted a second holder while write-held".into());
        }
        log.push("write-held lock admits nobody".to_string());
    }
    // 4. free lock admits both kinds
    {
        let lock = RwLock::new(0u32);
        if lock.try_write().is_none() || lock.try_read().is_none() {
            return Err("free lock refused".into());
        }
        log.push("free lock admits reader and writer".to_string());
    }
    Ok(log)
}

// ---------------------------------------------------------------------------------------------
// `seqsim`: the same generated container workloads executed SEQUENTIALLY (two fixed orders), in
// both the rc and the arc build. Used by the rc/arc differential (C19, first sentence): the
// observations must be identical in the two builds and equal to the sequential specification.

pub struct SeqWorker {
    pub known: KnownFindings,
}

impl Worker for SeqWorker {
    fn run(&mut self, run_seed: u64, index: u64) -> RunReport {
        let w = gen_workload(run_seed);
        let mut rep = RunReport::default();
        if let Some(e) = self_check(&w) {
            match sequential_report(&w, &e) {
                Some(v) => rep.violations.push(v),
                None => rep.harness_error = Some(e),
            }
            return rep;
        }
        // order 1: thread after thread; order 2: round robin
        let mut o1 = vec![];
        for (t, ops) in w.threads.iter().enumerate() {
            for i in 0..ops.len() {
                o1.push((t, i));
            }
        }
        let mut o2 = vec![];
        let maxlen = w.threads.iter().map(|t| t.len()).max().unwrap_or(0);
        for i in 0..maxlen {
            for (t, ops) in w.threads.iter().enumerate() {
                if i < ops.len() {
                    o2.push((t, i));
                }
            }
        }
        let mut d = Digest::new();
        for order in [&o1, &o2] {
            match run_sequential(&w, order) {
                Ok(obs) => {
                    for s in &obs {
                        d.str(s);
                    }
                }
                Err(e) => {
                    match sequential_report(&w, &e) {
                        Some(v) => rep.violations.push(v),
                        None => rep.harness_error = Some(e),
                    }
                    return rep;
                }
            }
        }
        // two of the solo scripts (seeded choice): callbacks into the container being worked on
        let n = SOLO_SCRIPTS.len() as u64;
        for pick in [run_seed % n, (run_seed >> 17) % n] {
            let (id, script) = SOLO_SCRIPTS[pick as usize];
            match run_solo(script) {
                Ok(text) => d.str(&text),
                Err(e) => {
                    let v = sequential_violation(&e).expect("panic text");
                    let mut feats = BTreeSet::new();
                    feats.insert(format!("solo:{id}"));
                    let known = self.known.matches("seqsim", &v.class, &feats);
                    // (same digest in both builds: the operation cannot complete — by a panic
                    // under rc, by waiting for itself under arc)
                    d.str("cannot-complete");
                    rep.violations.push(crate::campaign::ViolationReport {
                        class: v.class,
                        detail: v.detail,
                        scenario: json!({"solo_script": id, "script": script, "sequential": true}),
                        extra: json!({"features": feats}),
                        known,
                    });
                }
            }
        }
        rep.digest = d.0;
        rep.executions = 4;
        rep.sim_units = (o1.len() * 2) as u64;
        rep.signature = Some(d.0);
        rep.counters = vec![("container_operations", (o1.len() * 2) as u64)];
        if index < 2 {
            rep.sample = Some(json!({"run_seed": run_seed, "workload": workload_to_json(&w)}));
        }
        rep
    }
}
