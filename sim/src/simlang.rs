//! SimLang: the generated-program IR shared by `unwindsim`, `histsim` and `modsim`.
//!
//! A program is a set of exported functions plus a main block. The value domain is tiny on
//! purpose (ints, strings, one list, one map per frame, a global list); what is rich is the
//! control / call / unwinding structure: try/catch/finally nests, typed throws, loops with
//! break/continue, returns, and calls through every conduit by which control crosses a frame
//! in the VM. `tick(id)` sites are the dynamic fault points.

use crate::rng::Rng;

pub const NFUNCS_MAX: usize = 4;

/// The ways control crosses a frame. Every conduit calls function `f` (one int argument, int
/// result) one or more times and yields an int.
/// Further native call paths with the shape "calls f(a), then f(a + 1), from inside a core
/// library function" (helper name, body with `f` and `a`); the helper returns 0
pub const NATIVE2: &[(&str, &str)] = &[
    ("C_MAPSORT", "{p: a, q: a + 1}.sort(|k, v| f(v))"),
    ("C_MAPEACH", "{p: a, q: a + 1}.each(|(k, v)| f(v)).count()"),
    ("C_MAPKEEP", "{p: a, q: a + 1}.keep(|(k, v)| f(v) > -100000).count()"),
    ("C_TUPSORT", "(a, a + 1).sort_copy(|x| f(x))"),
    ("C_MINKEY", "(a, a + 1).min(|x| f(x))"),
    ("C_MAXKEY", "(a, a + 1).max(|x| f(x))"),
    ("C_MINMAXKEY", "(a, a + 1).min_max(|x| f(x))"),
    ("C_FLATTEN", "((a, a + 1),).flatten().each(|x| f(x)).count()"),
    ("C_COPYKEEP", "koto.copy((a..=a + 1).keep(|x| f(x) > -100000)).count()"),
    ("C_COPYEACH", "koto.deep_copy((a..=a + 1).each(|x| f(x))).count()"),
    ("C_TOMAP", "(a..=a + 1).each(|x| (x, f(x))).to_map()"),
    ("C_TOSTRING", "(a..=a + 1).each(|x| '{f(x)}').to_string()"),
    ("C_ONCE", "iterator.once(a).chain(iterator.once(a + 1)).each(|x| f(x)).count()"),
    ("C_MAPGETOR", "(a..=a + 1).each(|x| {k: 1}.get('zz', f(x))).count()"),
    ("C_LISTFILL", "[0, 0].fill(f(a) + f(a + 1))"),
    // an adaptor chain unpacked into call arguments (`f xs...`)
    ("C_UNPACK", "SINK2((a..=a + 1).each(|x| f(x))...)"),
    ("C_UNPACKGEN", "SINK2(UNPACKGEN(f, a)...)"),
    // a persistent container grown element by element by a callback that may fail half-way:
    // what was produced before the failure stays, nothing else (the model calls f(a) twice and
    // appends the results to the global list)
    ("C_RESIZEGL", "GL.resize_with((size GL) + 2, || f(a))"),
    // entries of the persistent map updated in place by a function that may fail: a failed
    // update leaves the entry as it was (the function hands the old value back, so the map is
    // the same after a completed update too and the model needs no map state)
    (
        "C_UPDATEGM",
        "(GM.update('ga', |x| f(a) * 0 + x), GM.update('gb', |x| f(a + 1) * 0 + x))",
    ),
    // an object iterated from its back: `@next_back` (a Koto function called by the runtime
    // from inside iterator.reversed / iterator.next_back) calls f
    ("C_REVERSED", "iterator.reversed(NBIT(f, a)).count()"),
    (
        "C_NEXTBACK",
        "(|it| (iterator.next_back(it), iterator.next_back(it), iterator.next_back(it)))(NBIT(f, a))",
    ),
];

#[derive(Clone, Copy, Debug, PartialEq, Eq, Hash)]
pub enum Conduit {
    /// see `NATIVE2`
    Native2(u8),
    Plain,
    Piped,
    Method,
    Each,
    Keep,
    Fold,
    Find,
    Transform,
    Retain,
    SortKey,
    MapUpdate,
    KotoRun,
    OpAdd,
    OpIndex,
    OpCall,
    OpNegate,
    OpSize,
    OpLess,
    OpEqInList,
    /// `>=` derived by the VM from `@<`
    OpGe,
    /// `<=` derived from `@<` and `@==`
    OpLe,
    /// `>` derived from `@<` and `@==`
    OpGt,
    /// `!=` derived from `@==`
    OpNe,
    Display,
    /// `@display` reached while a list holding the object is rendered
    DisplayInList,
    GenFor,
    GenNext,
    GenFold,
    /// `C_GENAGAIN(f, a)`: a generator yielding f(a), f(a + 1) is consumed by a `for` inside a
    /// try; when it fails the handler pulls from the SAME generator again (a second `for`, then
    /// `.next()`): nothing more may come out of it
    GenAgain,
    GenCatchFor,
    /// generator whose `yield`s sit INSIDE a try block (the catch point lives in a frame that is
    /// suspended and resumed); consumed by a summing `for`
    GenYieldInTry,
    /// conduits whose frames are all ordinary Koto frames on model-known lines although a native
    /// function / operator / generator sits in between (C12 checks the whole call chain):
    /// `fold` with a multi-line function literal
    FoldTraced,
    /// `@+` with a multi-line function
    OpAddTraced,
    /// generator bound to a LOCAL and consumed by a `for` statement
    GenLocalFor,
    /// object with `@iterator` returning a generator, consumed by `for`
    OpIterator,
    /// `(a..=a+1).each(|x| f(x))<adaptor><consumer>`: an iterator pipeline through one of the
    /// pass-through adaptors and one of the consumers (each with its own error path)
    Chain(u8, u8),
}

/// pass-through adaptors: every source element is pulled exactly once, in order
pub const CHAIN_ADAPTORS: &[(&str, bool)] = &[
    // (template, keeps elements numeric); {S} is the source `(a..=a + 1).each(|x| f(x))`
    ("{S}", true),
    ("{S}.chain((0,))", true),
    ("{S}.enumerate()", false),
    ("{S}.intersperse(0)", true),
    ("{S}.skip(0)", true),
    ("{S}.step(1)", true),
    ("{S}.take(2)", true),
    ("{S}.zip(10..12)", false),
    ("{S}.chunks(1)", false),
    ("{S}.windows(1)", false),
    ("{S}.peekable()", true),
    ("{S}.keep(|v| true)", true),
    ("{S}.each(|v| v)", true),
    ("{S}.cycle().take(2)", true),
    // elements that are skipped over are still evaluated: their errors must surface
    ("{S}.skip(1)", true),
    ("{S}.step(2)", true),
    // the source as the ARGUMENT of an adaptor
    ("(10..12).zip({S})", false),
    ("(0..0).chain({S})", true),
    ("(7..8).chain({S})", true),
];

/// The chain consumed by a `for` loop whose body is `mark(77)` (consumer index `CHAIN_FOR`):
/// per adaptor, what happens in order — A = the source evaluates f(a), B = f(a + 1), M = one
/// iteration of the loop body. An error at A or B ends the sequence: nothing is delivered to
/// the loop after the source has failed.
pub const CHAIN_FOR_SCRIPTS: &[&str] = &[
    "AMBM",  // {S}
    "AMBMM", // chain((0,))
    "AMBM",  // enumerate
    "AMBMM", // intersperse(0): the separator only once the next value is there
    "AMBM",  // skip(0)
    "AMBM",  // step(1)
    "AMBM",  // take(2)
    "AMBM",  // zip(10..12)
    "AMBM",  // chunks(1)
    "AMBM",  // windows(1)
    "AMBM",  // peekable
    "AMBM",  // keep
    "AMBM",  // each
    "AMBM",  // cycle().take(2)
    "ABM",   // skip(1)
    "ABM",   // step(2): the elements to skip are pulled right after the one that is kept
    "AMBM",  // (10..12).zip({S})
    "AMBM",  // (0..0).chain({S})
    "MAMBM", // (7..8).chain({S})
];
pub const CHAIN_FOR: u8 = 200;

/// consumers that pull everything
pub const CHAIN_CONSUMERS: &[(&str, bool)] = &[
    // (suffix, needs numeric elements)
    (".count()", false),
    (".to_list()", false),
    (".to_tuple()", false),
    (".last()", false),
    (".consume()", false),
    (".fold(0, |p, q| 0)", false),
    (".all(|v| true)", false),
    (".any(|v| false)", false),
    (".position(|v| false)", false),
    (".find(|v| false)", false),
    (".min()", true),
    (".max()", true),
    (".min_max()", true),
    (".sum()", true),
    (".product()", true),
];

pub const CONDUITS: &[Conduit] = &[
    Conduit::Plain,
    Conduit::Piped,
    Conduit::Method,
    Conduit::Each,
    Conduit::Keep,
    Conduit::Fold,
    Conduit::Find,
    Conduit::Transform,
    Conduit::Retain,
    Conduit::SortKey,
    Conduit::MapUpdate,
    Conduit::KotoRun,
    Conduit::OpAdd,
    Conduit::OpIndex,
    Conduit::OpCall,
    Conduit::OpNegate,
    Conduit::OpSize,
    Conduit::OpLess,
    Conduit::OpEqInList,
    Conduit::OpGe,
    Conduit::OpLe,
    Conduit::OpGt,
    Conduit::OpNe,
    Conduit::Display,
    Conduit::DisplayInList,
    Conduit::GenFor,
    Conduit::GenNext,
    Conduit::GenFold,
    Conduit::GenAgain,
    Conduit::GenCatchFor,
    Conduit::GenYieldInTry,
    Conduit::FoldTraced,
    Conduit::OpAddTraced,
    Conduit::GenLocalFor,
    Conduit::OpIterator,
];

impl Conduit {
    /// conduits whose frames are ordinary Koto call frames in one VM (C12's full oracle)
    pub fn is_plain_frame(&self) -> bool {
        matches!(self, Conduit::Plain | Conduit::Method)
    }
}

#[derive(Clone, Copy, Debug, PartialEq, Eq, Hash)]
pub enum TickShape {
    /// `tick(id)`
    Plain,
    /// `(tick(id) + 0)`: a wrong-kinded value fails in the Add instruction
    Add,
    /// `IDX[tick(id) - id]`: a wrong value fails in the Index instruction (out of bounds)
    Index,
    /// `C_GAY(tick(id))`: the value is consumed by an Add on locals in the statement right after
    /// a `yield` of a generator (the failing instruction is the first one after the resume)
    GenAdd,
}

#[derive(Clone, Debug)]
pub enum Expr {
    Int(i64),
    /// int local i0..i2
    Var(u8),
    /// the function's parameter
    Param,
    /// loop variable of the enclosing loop at nesting level n
    LoopVar(u8),
    Tick(u32, TickShape),
    Add(Box<Expr>, Box<Expr>),
    Call(Box<Call>),
    /// `size l0`
    ListSize,
}

#[derive(Clone, Debug)]
pub struct Call {
    pub conduit: Conduit,
    pub func: usize,
    pub arg: Expr,
    /// call the function without its argument (natural "insufficient arguments" error);
    /// only meaningful for Conduit::Plain
    pub drop_arg: bool,
    /// unique id of this call site
    pub site: u32,
}

#[derive(Clone, Debug)]
pub enum StrPart {
    Text(String),
    Int(Expr),
}

/// (source text, first line of the runtime error, further frames reported on the same line
/// before the enclosing call sites)
pub const NATIVE_OP_FAILS: &[(&str, &str, u8)] = &[
    ("[1, 'a'].min()", "unable to perform operation '<' with 'Number' and 'String'", 0),
    ("[1, 'a'].max()", "unable to perform operation '<' with 'Number' and 'String'", 0),
    ("[1, 'a'].sort()", "unable to perform operation '<' with 'String' and 'Number'", 0),
    ("(1, 'a').sum()", "unable to perform operation '+' with 'Number' and 'String'", 0),
    ("(2, 'a').product()", "unable to perform operation '*' with 'Number' and 'String'", 0),
    ("(1..3).keep(|x| 5).count()", "expected Bool from the predicate, found Number", 1),
    ("koto.copy((1..3).keep(|x| 5)).count()", "expected Bool from the predicate, found Number", 1),
    ("koto.deep_copy((1..3).keep(|x| 5)).count()", "expected Bool from the predicate, found Number", 1),
];

/// module files the engines place next to the script
pub const MODULE_FILES: &[(&str, &str)] = &[
    ("okmod.koto", "mark(4242)\nexport x = 1\n"),
    ("failtop.koto", "export y = 2\nthrow 'FT'\n"),
];

/// Tiny functions that catch an error themselves and use as few registers as possible (no
/// calls, no temporaries besides what the try/catch itself needs): what the compiler reserves
/// for the error path is all the frame has. (body lines, good arguments, result with the good
/// arguments, bad arguments — the result with those is always -1)
pub const TINY: &[(&[&str], &str, i64, &str)] = &[
    (&["try", "  s = a + b", "catch _", "  s = -1", "s"], "1, 2", 3, "1, 'a'"),
    (&["try", "  s = a + b", "catch e", "  s = -1", "s"], "1, 2", 3, "1, 'a'"),
    (&["try", "  s = a + b", "catch _e", "  s = -1", "s"], "1, 2", 3, "1, 'a'"),
    (&["s = try", "  a + b", "catch _", "  -1", "s"], "1, 2", 3, "1, 'a'"),
    (&["try", "  return a + b", "catch _", "  return -1"], "1, 2", 3, "1, 'a'"),
    (&["try", "  v = a[b]", "catch _", "  v = -1", "v"], "IDX, 0", 0, "IDX, 5"),
    (&["try", "  v = a[b]", "catch e", "  v = -1", "v"], "IDX, 0", 0, "IDX, 5"),
    (&["s = 0", "for i in 0..2", "  try", "    s = a + b", "  catch _", "    s = -1", "s"], "1, 2", 3, "1, 'a'"),
    (&["try", "  s = a + b", "catch _", "  s = -1", "finally", "  t = 0", "s"], "1, 2", 3, "1, 'a'"),
    (&["try", "  s = a + b", "catch {code}", "  s = -2", "catch _", "  s = -1", "s"], "1, 2", 3, "1, 'a'"),
    (&["try", "  try", "    s = a + b", "  catch _", "    throw 'again'", "catch _", "  s = -1", "s"], "1, 2", 3, "1, 'a'"),
    (&["try", "  s = -a", "catch _", "  s = -1", "s"], "-3, 0", 3, "'a', 0"),
    (&["try", "  s = a.x", "catch _", "  s = -1", "s"], "{x: 3}, 0", 3, "5, 0"),
    (&["try", "  s = size '{a + b}'", "catch _", "  s = -1", "s"], "10, 2", 2, "1, 'a'"),
];

/// Helper functions that always fail, with known positions: (lines of the helper, offsets —
/// from the helper's first line — of the frames INSIDE the helper, innermost first, the call,
/// the first line of the error, it is a thrown string rather than a runtime error)
pub const PRELUDE_FAILS: &[(&[&str], &[u32], &str, &str, bool)] = &[
    // the implicit return value fails the output type check: reported at the last expression
    (&["export RT0 = |a| -> Number", "  x = a", "  y = x", "  '{y}'"], &[3], "RT0(1)", "expected Number, found String", false),
    (&["export RT1 = |a| -> String", "  x = a", "  return x"], &[2], "RT1(1)", "expected String, found Number", false),
    // direct recursion: the same call site in consecutive frames
    // (the function is handed to itself: a function that names itself captures itself, a
    // reference cycle koto never frees — it would keep every program's chunk alive)
    (&["export REC = |n, g|", "  if n == 0", "    throw 'rec'", "  g(n - 1, g)"], &[2, 3, 3, 3], "REC(3, REC)", "rec", true),
    // argument and `let` type checks
    (&["export AT0 = |a: String|", "  x = 1", "  a"], &[0], "AT0(1)", "expected String, found Number", false),
    (&["export LT0 = |a|", "  x = 1", "  let y: String = a", "  y"], &[2], "LT0(1)", "expected String, found Number", false),
    // a function literal on a later line captures the identifier the enclosing assignment is
    // still assigning: the deferred capture fails, reported at the literal
    (
        &["export DC0 = |a|", "  numbers = (1, 2)", "  dcx = numbers", "    .find |n|", "      n == dcx", "  dcx"],
        &[3],
        "DC0(1)",
        "expected Function while capturing value, found Null",
        false,
    ),
    // an interpolated expression on the second line of a string literal whose value fails while
    // it is rendered: reported on the expression's line, not on the string's first line
    (
        &[
            "export SPO =",
            "  @display: || throw 'spd'",
            "export SPF = || SPO",
            "export SP0 = |a|",
            "  s = 'first",
            "second {SPF()}",
            "third'",
            "  s",
        ],
        &[1, 5],
        "SP0(1)",
        "spd",
        true,
    ),
    // a value pattern of a match arm whose comparison throws: reported at the arm
    (
        &["export PFEQ =", "  mk:", "    @==: |o| throw 'pe'", "export PFMATCH = |v|", "  match v", "    0 then 0", "    PFEQ.mk then 1", "    else 2"],
        &[2, 6],
        "PFMATCH(1)",
        "pe",
        true,
    ),
    // a `rest...` pattern tested against a value that cannot be sliced: reported at the arm
    (
        &["export PFREST = |a|", "  w = 0", "  match a, 1..3", "    x, (y, rest...) then 0", "    else 1"],
        &[3],
        "PFREST(1)",
        "expected a sliceable value, found Range",
        false,
    ),
    // `target.key = value` with two plain locals: reported at the assignment
    (
        &["export PFASSIGN = |t, v|", "  w = 0", "  t.key = v"],
        &[2],
        "PFASSIGN(5, 1)",
        "expected a value that supports assignment via '.', found Number",
        false,
    ),
    (
        &["export PFAA =", "  @access_assign: |k, v| throw 'paa'", "export PFASSIGN2 = |t, v|", "  w = 0", "  t.key = v"],
        &[1, 4],
        "PFASSIGN2(PFAA, 1)",
        "paa",
        true,
    ),
];

/// One-argument functions whose LAST expression contains a bare `return` that is not always
/// reached: control can fall off the end of the function. Called as `xx = FALL<k>(true|false)`;
/// the result (null either way) is not used.
pub const FALL: &[&[&str]] = &[
    &["if c then return"],
    &["if c", "  return"],
    &["x = 1", "if c then return"],
    &["for i in 0..2", "  if c then return"],
    &["while c", "  return"],
    &["loop", "  if c then return", "  break"],
    &["try", "  if c then return", "catch _", "  return"],
    &["if c", "  return", "else if c == 5", "  return"],
    &["match c", "  true then return", "  else null"],
    &["if not c", "  if c then return"],
];

/// Further fixed functions that are simply called (`xx = <call>`); the result is not used.
/// (lines of the definition, the call)
pub const MISC_FNS: &[(&[&str], &str)] = &[
    // optional arguments + a closure, created while an error is being handled, that reaches an
    // item of the core library (a non-local that is not captured) or an exported value which the
    // function itself never touches
    (&["export OPTF = |a, b = 1|", "  try", "    throw 'x'", "  catch _", "    g = || string.to_uppercase 'ab'", "    return g()"], "OPTF(1)"),
    (&["export OPTG = |a, b = 1, c = 2|", "  h = || (|| (koto.type(1), string.to_uppercase('a')))()", "  h()"], "OPTG(1)"),
    (&["export OPTH = |a, b = 1|", "  try", "    throw 'x'", "  catch _", "    g = || GM", "    return size g()"], "OPTH(1)"),
];

/// statements that always fail, for `Stmt::Storm`
pub const STORM_SOURCES: &[&str] = &[
    "throw 'S'",
    "xx = [1, 'a'].min()",
    "xx = [1, 'a'].sort()",
    "xx = (1, 'a').sum()",
    "xx = (2, 'a').product()",
    "xx = 'p{(1, 'a').sum()}q'",
    "xx = [7, (1, 'a').sum()]",
    "xx = C_APPLY()",
    "xx = {k: 1}.update 'k', |x| x + 'a'",
    "xx = (1..3).each(|x| x + 'a').to_list()",
    "xx = 1 + 'a'",
    "xx = IDX[5]",
    "import failtop",
    "from failtop import y",
    "import nosuchmodule",
    "xx = koto.run('throw 1')",
    "xx = koto.load('(')",
    "xx = IDX.nosuch()",
    "assert false",
    "xx = '{1 + null}'",
    "xx = (1, 2, (3, 4 + 'a'))",
    "xx = {k: 1 + 'a'}",
    "xx = 'abc'.to_number() + 1",
    "xx = (1..3).each(|x| x + 'a').to_tuple()",
    "xx = (|a, b| a + b)(1)",
    "xx = (1..3).fold 0, |a, b| a + 'x'",
    "xx = -'a'",
    "xx = 1 < 'a'",
    "xx = 5[0]",
    "xx, yy = 1 + 'a', 2",
    "xx = if 1 + 'a' then 1 else 2",
    // an overloaded operator that throws (STORMOBJ is defined in the prelude of every program)
    "xx = STORMOBJ + 1",
    "xx = STORMOBJ - 1",
    "xx = STORMOBJ[0]",
    "xx = STORMOBJ(1)",
    "xx = -STORMOBJ",
    "xx = STORMOBJ < 1",
    "xx = STORMOBJ >= 1",
    "xx = STORMOBJ == 1",
    "xx = STORMOBJ != 1",
    "xx = '{STORMOBJ}'",
    "xx = size STORMOBJ",
    "xx = [STORMOBJ] == [1]",
    "xx = (STORMOBJ, STORMOBJ).min()",
    "xx = STORMOBJ.to_list()",
    "STORMOBJ += 1",
];

/// statements that always SUCCEED, for `Stmt::Calm`: (set-up line, loop body, text of `xx`
/// afterwards). CALMOBJ overrides every operator with a function written in Koto that returns
/// normally; whatever a completed operator call leaves behind in the calling frame accumulates,
/// because no ordinary call returns into the frame between the iterations
pub const CALM_SOURCES: &[(&str, &str, &str)] = &[
    ("xx = 0", "xx = CALMOBJ + 1", "11"),
    ("xx = 0", "xx = CALMOBJ - 1", "12"),
    ("xx = 0", "xx = CALMOBJ * 2", "13"),
    ("xx = 0", "xx = CALMOBJ / 2", "14"),
    ("xx = 0", "xx = CALMOBJ % 2", "15"),
    ("xx = 0", "xx = CALMOBJ ^ 2", "16"),
    ("xx = 0", "xx = 1 + CALMOBJ", "17"),
    ("xx = 0", "xx = CALMOBJ < 1", "true"),
    ("xx = 0", "xx = CALMOBJ <= 1", "true"),
    ("xx = 0", "xx = CALMOBJ > 1", "false"),
    ("xx = 0", "xx = CALMOBJ >= 1", "false"),
    ("xx = 0", "xx = CALMOBJ == 1", "true"),
    ("xx = 0", "xx = CALMOBJ != 1", "false"),
    ("xx = 0", "xx = -CALMOBJ", "20"),
    ("xx = 0", "xx = CALMOBJ[0]", "18"),
    ("xx = 0", "xx = CALMOBJ(1)", "19"),
    ("xx = 0", "xx = '{CALMOBJ}'", "CALM"),
    ("xx = 0", "xx = size CALMOBJ", "21"),
    ("xx = 0", "CALMOBJ[0] = rr", "0"),
    ("xx = 0", "xx = [CALMOBJ] == [1]", "true"),
    ("xx = 0", "xx = (CALMOBJ, CALMOBJ).min()", "CALM"),
    ("xx = 0", "xx, yy = CALMOBJ", "22"),
    ("xx = 0", "xx = CALMU + CALMOBJ", "17"),
    ("xx = CALMOBJ", "xx += 1", "CALM"),
    ("xx = 0", "xx = CALMOBJ + CALMOBJ * 2 - 1", "10"),
    ("xx = 0", "xx = if CALMOBJ >= 1 then 1 else 2", "2"),
    // operators overridden by NATIVE functions (as a host would install them)
    ("xx = 0", "xx = CALMNAT + 1", "Number"),
    ("xx = 0", "xx = CALMNAT * 'a'", "String"),
    ("xx = 0", "xx = CALMNAT >= 1", "true"),
    ("xx = 0", "xx = CALMNAT != 1", "true"),
    ("xx = 0", "xx = CALMNAT < 1", "false"),
];

#[derive(Clone, Debug)]
pub enum ThrowKind {
    Str(u32),
    Typed(u8, Expr),
    /// `throw <int>`: any value can be thrown and is caught unchanged with its type
    Num(Expr),
    /// a typed throw whose operand does not end on the `throw` line: layout 1 =
    /// `throw MKERR<k>(` / `  <e>` / `)`, layout 2 = `throw` + an indented map block with
    /// `code`, `@type` and `@display` entries
    TypedLayout(u8, Expr, u8),
    /// `throw {code: <e>}`: a plain map without a metamap (caught as thrown; only the
    /// untyped map patterns and the catch-all accept it)
    Plain(Expr),
}

#[derive(Clone, Debug)]
pub enum CatchKind {
    Typed(u8),
    String,
    Number,
    Any,
    /// `catch {code}`: a map pattern; accepts the typed throws (maps with a `code` entry) only
    MapCode,
    /// `catch {code}: T<k>`
    MapCodeTyped(u8),
    /// `catch {nokey}`: a map pattern nothing thrown by these programs matches
    MapMissing,
    /// `catch i<v>: Bool`: the argument is named like a live local and its type never matches;
    /// the local must keep its value (never in last position)
    NeverLocal(u8),
    /// `catch e: String?` (optional type hint): as `String`
    StringOpt,
    /// `catch e: T<k>?`
    TypedOpt(u8),
    /// `catch {code: Number}`: a typed entry of a map pattern; accepts the typed throws
    MapCodeNum,
    /// `catch {code, count}`: the second key is missing in every thrown map — and happens to be
    /// the name of a core library function, which must not make the pattern match
    MapCodeCount,
}

#[derive(Clone, Debug)]
pub struct Catch {
    pub kind: CatchKind,
    pub block: Block,
}

#[derive(Clone, Debug, Default)]
pub struct Block {
    pub stmts: Vec<Stmt>,
    /// value of the block when it is used as an expression (try blocks with a result)
    pub tail: Option<Expr>,
}

#[derive(Clone, Debug)]
pub struct Try {
    /// `tq = <prefix>, try …` then `i<result> = tq[1]`: the try expression is evaluated while a
    /// tuple of the same function is under construction
    pub tuple_prefix: Option<Expr>,
    pub id: u32,
    /// assign the value of the try expression to this int local
    pub result: Option<u8>,
    pub body: Block,
    pub catches: Vec<Catch>,
    pub finally: Option<Block>,
}

#[derive(Clone, Debug)]
pub enum Cond {
    /// expr == int
    Eq(Expr, i64),
    /// expr > int
    Gt(Expr, i64),
}

#[derive(Clone, Debug)]
pub enum Stmt {
    Mark(u32),
    Assign(u8, Expr),
    AssignStr(Vec<StrPart>),
    AssignList(Vec<Expr>),
    Push(Expr),
    GlobalPush(Expr),
    MapSet(u8, Expr),
    Print(Expr),
    If(Cond, Block, Block),
    /// `for j<level> in 0..n`
    For(u8, u8, Block),
    /// `w<level> = 0; while w<level> < n { w<level> += 1; … }`
    While(u8, u8, Block),
    Break,
    Continue,
    Return(Expr),
    Throw(ThrowKind),
    Try(Box<Try>),
    Dump(u32),
    Expr(Expr),
    /// `m0[0] = (l0, 1)`: an unhashable key - a natural error raised in the middle of a
    /// container operation (the map must be unchanged afterwards)
    MapIndexBadKey,
    /// `xx = [1, 'a'].min()` and the like: a core library function fails inside an operator it
    /// runs through the VM (`run_binary_op`); see `NATIVE_OP_FAILS`
    NativeOpFail(u8),
    /// main script only. ok: `import okmod` / `i<v> = okmod.x + 41`; otherwise a failing import
    /// that is caught, followed by an export that is then read back as a non-local:
    /// `try` / `import failtop` / `catch e` / `i<v> = 40` / `export EX<v> = i<v> + 1` /
    /// `i<v> = (|| EX<v> + 1)()`. The modules are files next to the script (`MODULE_FILES`).
    ImportStep(u8, bool),
    /// a throw in the value position of an assignment to an existing local; form 0:
    /// `i<v> = if <c> > 0 then <e> else throw 'E<n>'`, form 1: `i<v> = match <c>` / `  0 then
    /// throw 'E<n>'` / `  else <e>`. When it throws the local keeps its value.
    AssignOrThrow(u8, Expr, Expr, u32, u8),
    /// `ls = [3, 'a', 1]` / `try` / `  ls.sort()` / `catch e` / `  i<v> = size ls`: a native that
    /// fails half-way leaves the container's elements in place (possibly reordered)
    SortFailKeeps(u8),
    /// `GM[0] = (l0, 1)`: the bad-key assignment on the EXPORTED map (it keeps its entries)
    GlobalMapBadKey,
    /// `i<v> = TINY<k>(<good or bad arguments>)`: see `TINY`
    Tiny(u8, u8, bool),
    /// `xx = FALL<k>(true|false)`: see `FALL`
    Fall(u8, bool),
    /// `xx = <call of PRELUDE_FAILS[k]>`
    PreludeFail(u8),
    /// `xx = <call of MISC_FNS[k]>`
    Misc(u8),
    /// `for rr in 0..<n>` / `try` / <a statement that always fails> / `catch e` / `i<v> += 1`:
    /// many errors caught in ONE frame (whatever a caught error leaves behind accumulates)
    Storm(u8, u8, u32),
    /// <set-up> / `for rr in 0..<n>` / <a statement of CALM_SOURCES that always succeeds> /
    /// `i<v> += (if '{xx}' == '<expected>' then 1 else 1000)`: many completed operator calls in
    /// ONE frame
    Calm(u8, u8, u32),
    /// `i<v> = loop` / `try` / pre… / `break <value>` / `catch e` / handler… / `break -7`:
    /// the break VALUE is evaluated inside the try block of a loop used as an expression
    LoopTryBreak(u8, u32, Block, Expr, Block),
    /// `i<v> += e`
    AddAssign(u8, Expr),
    /// a multi-line method chain with the expression on a continuation line:
    /// `i<v> = (0..1)` / `  .each |x| x + <e>` / `  .fold 0, |p, q| p + q`
    ChainAssign(u8, Expr),
    /// `i<v> = match <e>` with a literal arm, a guarded arm and an else arm
    MatchAssign(u8, Expr, Expr),
    /// a call at the end of a multi-line access chain, on a line of its own:
    /// `i<v> = QM` / [`  .sub`] / `  .'f <k>'(<arg>)` or `  .g<k>(<arg>)` (form bit 0: identifier
    /// key instead of a quoted string key, bit 1: one more access line in between). The call is
    /// an ordinary Koto call whose call site is the LAST line of the statement.
    KeyChainCall(u8, usize, Expr, u32, u8),
    /// `i<v> = C_APPLY <arg>, |x|` + a multi-statement function literal that calls f<func>:
    /// every frame on the path is an ordinary Koto call frame
    AssignLambdaCall(u8, usize, Expr, u32),
}

#[derive(Clone, Debug, Default)]
pub struct Func {
    pub body: Block,
    pub ret: Option<Expr>,
}

#[derive(Clone, Debug, Default)]
pub struct Program {
    pub funcs: Vec<Func>,
    pub main: Func,
    pub n_ticks: u32,
    pub n_marks: u32,
    pub n_calls: u32,
    pub n_tries: u32,
    /// the program is compiled with `enable_type_checks(false)` (the printer says so in a first
    /// comment line, which `unwindsim::execute` honours): argument / `let` / output type hints
    /// are then not checked, catch block type hints still select the handler
    pub type_checks_off: bool,
}

pub const TYPE_CHECKS_OFF_HEADER: &str = "# compiled with type checks off";

// ---------------------------------------------------------------------------------------------
// Generation

#[derive(Clone, Debug)]
pub struct GenKnobs {
    pub max_funcs: usize,
    pub max_depth: u8,
    pub stmts_per_block: (u64, u64),
    pub conduits: Vec<Conduit>,
    pub allow_loops: bool,
    pub allow_break_in_try: bool,
    pub allow_finally: bool,
    pub allow_abrupt_in_finally_try: bool,
    pub allow_print: bool,
    pub allow_drop_arg: bool,
    pub allow_throw: bool,
    pub allow_typed: bool,
    pub allow_return_in_try: bool,
    pub allow_try_result: bool,
    pub allow_chains: bool,
    /// bias: catch blocks inside loops end with break/continue, and a fault point follows
    /// every loop that sits inside a try block
    pub dense_exits: bool,
    pub tick_shapes: Vec<TickShape>,
    /// largest iteration count of a `Stmt::Storm`
    pub max_storm: u32,
    pub type_checks_off: bool,
}

impl GenKnobs {
    /// swarm: each run enables a random subset of features
    pub fn swarm(r: &mut Rng) -> Self {
        let mut conduits: Vec<Conduit> = CONDUITS
            .iter()
            .copied()
            .filter(|_| r.chance(1, 3))
            .collect();
        if conduits.is_empty() || r.chance(1, 2) {
            conduits.push(Conduit::Plain);
        }
        let mut tick_shapes = vec![TickShape::Plain];
        if r.chance(2, 3) {
            tick_shapes.push(TickShape::Add);
        }
        if r.chance(1, 2) {
            tick_shapes.push(TickShape::Index);
        }
        if r.chance(1, 3) {
            tick_shapes.push(TickShape::GenAdd);
        }
        Self {
            max_funcs: r.range(1, NFUNCS_MAX as u64) as usize,
            max_depth: r.range(1, 3) as u8,
            stmts_per_block: (1, r.range(2, 5)),
            conduits,
            allow_loops: r.chance(2, 3),
            allow_break_in_try: r.chance(1, 2),
            allow_finally: r.chance(2, 3),
            allow_abrupt_in_finally_try: r.chance(1, 2),
            allow_print: r.chance(1, 3),
            allow_drop_arg: r.chance(1, 4),
            allow_throw: r.chance(3, 4),
            allow_typed: r.chance(2, 3),
            allow_return_in_try: r.chance(1, 2),
            allow_try_result: r.chance(2, 3),
            allow_chains: r.chance(1, 2),
            dense_exits: r.chance(1, 2),
            tick_shapes,
            max_storm: *r.pick(&[5, 30, 100, 270]),
            type_checks_off: r.chance(1, 4),
        }
    }
}

struct Gen<'a> {
    r: &'a mut Rng,
    k: &'a GenKnobs,
    p: Program,
    /// index of the function being generated (usize::MAX for main)
    cur: usize,
    nfuncs: usize,
    budget: i32,
}

#[derive(Clone, Copy)]
struct Ctx {
    depth: u8,
    loop_level: u8,
    /// number of try blocks entered inside the innermost loop (break would leave them)
    tries_in_loop: u8,
    in_try: bool,
    in_finally_try: bool,
    in_func: bool,
    /// inside a finally block: keep it simple (no control flow out of it)
    in_finally: bool,
    /// inside a try expression that is an element of a tuple under construction: `return`,
    /// `break` and `continue` would leave the VM's sequence builder behind on a SUCCESS path
    /// (koto behaviour outside the properties studied here), so they are not generated
    no_abrupt: bool,
}

impl<'a> Gen<'a> {
    fn tick(&mut self) -> Expr {
        self.p.n_ticks += 1;
        let shape = *self.r.pick(&self.k.tick_shapes);
        Expr::Tick(self.p.n_ticks, shape)
    }

    fn mark(&mut self) -> Stmt {
        self.p.n_marks += 1;
        Stmt::Mark(self.p.n_marks)
    }

    fn callable_funcs(&self) -> Vec<usize> {
        // acyclic call graph: function k may call only functions with a larger index
        let lo = if self.cur == usize::MAX { 0 } else { self.cur + 1 };
        (lo..self.nfuncs).collect()
    }

    fn call(&mut self, depth: u8, c: Ctx) -> Option<Expr> {
        let funcs = self.callable_funcs();
        if funcs.is_empty() {
            return None;
        }
        let func = *self.r.pick(&funcs);
        let mut conduit = *self.r.pick(&self.k.conduits);
        if self.k.allow_chains && self.r.chance(1, 5) {
            conduit = Conduit::Native2(self.r.usize_below(NATIVE2.len()) as u8);
        } else if self.k.allow_chains && self.r.chance(1, 2) {
            let ad = self.r.usize_below(CHAIN_ADAPTORS.len());
            let mut co = self.r.usize_below(CHAIN_CONSUMERS.len());
            if CHAIN_CONSUMERS[co].1 && !CHAIN_ADAPTORS[ad].1 {
                co = self.r.usize_below(10); // a consumer that accepts any element
            }
            if self.r.chance(1, 4) {
                co = CHAIN_FOR as usize;
            }
            conduit = Conduit::Chain(ad as u8, co as u8);
        }
        let arg = if depth > 0 && self.r.chance(1, 3) {
            self.int_expr(depth - 1, c)
        } else {
            self.small_int_expr(c)
        };
        let arg = match conduit {
            // the argument must be a literal (it is spliced into a string of source text)
            Conduit::KotoRun => Expr::Int(self.r.irange(0, 9)),
            // these conduits take no argument
            Conduit::Display
            | Conduit::DisplayInList
            | Conduit::OpNegate
            | Conduit::OpSize
            | Conduit::OpIterator => Expr::Int(0),
            _ => arg,
        };
        self.p.n_calls += 1;
        let drop_arg = conduit == Conduit::Plain && self.k.allow_drop_arg && self.r.chance(1, 6);
        Some(Expr::Call(Box::new(Call {
            conduit,
            func,
            arg,
            drop_arg,
            site: self.p.n_calls,
        })))
    }

    fn small_int_expr(&mut self, c: Ctx) -> Expr {
        match self.r.below(5) {
            0 => Expr::Int(self.r.irange(-9, 9)),
            1 => Expr::Var(self.r.below(3) as u8),
            2 if c.in_func => Expr::Param,
            3 if c.loop_level > 0 => Expr::LoopVar(self.r.below(c.loop_level as u64) as u8),
            _ => self.tick(),
        }
    }

    fn int_expr(&mut self, depth: u8, c: Ctx) -> Expr {
        self.budget -= 1;
        if depth == 0 || self.budget < 0 {
            return self.small_int_expr(c);
        }
        match self.r.below(8) {
            0..=1 => self.tick(),
            2..=3 => {
                if let Some(e) = self.call(depth, c) {
                    e
                } else {
                    self.tick()
                }
            }
            4 => Expr::Add(
                Box::new(self.int_expr(depth - 1, c)),
                Box::new(self.int_expr(depth - 1, c)),
            ),
            5 => Expr::ListSize,
            _ => self.small_int_expr(c),
        }
    }

    fn block(&mut self, c: Ctx, want_tail: bool) -> Block {
        let n = self.r.range(self.k.stmts_per_block.0, self.k.stmts_per_block.1);
        let mut stmts = vec![self.mark()];
        for _ in 0..n {
            if self.budget < 0 {
                break;
            }
            let s = self.stmt(c);
            let terminal = matches!(
                s,
                Stmt::Break | Stmt::Continue | Stmt::Return(_) | Stmt::Throw(_)
            );
            let was_loop_in_try = c.in_try && matches!(s, Stmt::For(..) | Stmt::While(..));
            stmts.push(s);
            if terminal {
                break;
            }
            if was_loop_in_try && self.k.dense_exits && self.r.chance(2, 3) {
                // a later error in the same try block, after the loop
                let t = self.tick();
                stmts.push(Stmt::Assign(self.r.below(3) as u8, t));
            }
        }
        let tail = if want_tail {
            Some(self.int_expr(1, c))
        } else {
            None
        };
        Block { stmts, tail }
    }

    fn cond(&mut self, c: Ctx) -> Cond {
        if c.loop_level > 0 && self.r.chance(2, 3) {
            Cond::Eq(
                Expr::LoopVar(self.r.below(c.loop_level as u64) as u8),
                self.r.irange(0, 2),
            )
        } else if self.r.chance(1, 2) {
            Cond::Gt(self.tick(), -1)
        } else {
            Cond::Eq(Expr::Var(self.r.below(3) as u8), self.r.irange(-1, 3))
        }
    }

    fn stmt(&mut self, c: Ctx) -> Stmt {
        self.budget -= 1;
        let nested_ok = c.depth < self.k.max_depth && self.budget > 0;
        loop {
            let choice = self.r.below(28);
            let s = match choice {
                0..=3 => Stmt::Assign(self.r.below(3) as u8, self.int_expr(2, c)),
                4 => {
                    let mut parts = vec![StrPart::Text("p".into())];
                    for _ in 0..self.r.range(1, 2) {
                        parts.push(StrPart::Int(self.int_expr(2, c)));
                        parts.push(StrPart::Text("q".into()));
                    }
                    Stmt::AssignStr(parts)
                }
                5 => {
                    let n = self.r.range(1, 3);
                    Stmt::AssignList((0..n).map(|_| self.int_expr(2, c)).collect())
                }
                6 => Stmt::Push(self.int_expr(2, c)),
                7 => Stmt::GlobalPush(self.int_expr(1, c)),
                8 => Stmt::MapSet(self.r.below(2) as u8, self.int_expr(2, c)),
                9 if self.k.allow_print => Stmt::Print(self.int_expr(1, c)),
                10 => self.mark(),
                11 => Stmt::Expr(self.int_expr(2, c)),
                12..=13 if nested_ok => {
                    let cond = self.cond(c);
                    let c2 = Ctx { depth: c.depth + 1, ..c };
                    let then = self.block(c2, false);
                    let els = if self.r.chance(1, 2) {
                        self.block(c2, false)
                    } else {
                        Block::default()
                    };
                    Stmt::If(cond, then, els)
                }
                14..=15 if nested_ok && self.k.allow_loops && c.loop_level < 2 && !c.in_finally => {
                    let c2 = Ctx {
                        depth: c.depth + 1,
                        loop_level: c.loop_level + 1,
                        tries_in_loop: 0,
                        ..c
                    };
                    let n = self.r.range(1, 3) as u8;
                    let body = self.block(c2, false);
                    if self.r.chance(1, 2) {
                        Stmt::For(c.loop_level, n, body)
                    } else {
                        Stmt::While(c.loop_level, n, body)
                    }
                }
                16..=19 if nested_ok && !c.in_finally => Stmt::Try(Box::new(self.try_stmt(c))),
                20 if c.loop_level > 0
                    && !c.in_finally
                    && !c.no_abrupt
                    && (c.tries_in_loop == 0 || self.k.allow_break_in_try)
                    && (!c.in_finally_try || self.k.allow_abrupt_in_finally_try) =>
                {
                    if self.r.chance(1, 2) { Stmt::Break } else { Stmt::Continue }
                }
                21 if c.in_func
                    && !c.in_finally
                    && !c.no_abrupt
                    && (!c.in_try || self.k.allow_return_in_try)
                    && (!c.in_finally_try || self.k.allow_abrupt_in_finally_try) =>
                {
                    Stmt::Return(self.int_expr(1, c))
                }
                22..=23 if self.k.allow_throw && !c.in_finally => {
                    if self.k.allow_typed && self.r.chance(1, 5) {
                        if self.r.chance(1, 3) {
                            Stmt::Throw(ThrowKind::Plain(self.small_int_expr(c)))
                        } else {
                            Stmt::Throw(ThrowKind::Num(self.small_int_expr(c)))
                        }
                    } else if self.k.allow_typed && self.r.chance(1, 2) {
                        if self.r.chance(1, 3) {
                            Stmt::Throw(ThrowKind::TypedLayout(
                                self.r.range(1, 2) as u8,
                                self.small_int_expr(c),
                                self.r.range(1, 2) as u8,
                            ))
                        } else {
                            Stmt::Throw(ThrowKind::Typed(
                                self.r.range(1, 2) as u8,
                                self.small_int_expr(c),
                            ))
                        }
                    } else {
                        Stmt::Throw(ThrowKind::Str(self.r.range(1, 9) as u32))
                    }
                }
                24..=25 => {
                    if let Some(e) = self.call(2, c) {
                        Stmt::Expr(e)
                    } else {
                        continue;
                    }
                }
                27 if self.r.chance(1, 3) => {
                    if self.r.chance(1, 3) || !nested_ok || c.in_finally {
                        match self.r.below(if self.cur == usize::MAX { 11 } else { 9 }) {
                            8 if self.k.allow_throw => Stmt::AssignOrThrow(
                                self.r.below(3) as u8,
                                self.small_int_expr(c),
                                self.small_int_expr(c),
                                self.r.range(1, 9) as u32,
                                self.r.below(2) as u8,
                            ),
                            8 => Stmt::SortFailKeeps(self.r.below(3) as u8),
                            7 if self.r.chance(1, 2) => Stmt::SortFailKeeps(self.r.below(3) as u8),
                            7 => Stmt::GlobalMapBadKey,
                            6 | 9 | 10 => Stmt::ImportStep(self.r.below(3) as u8, self.r.chance(1, 3)),
                            // (with type checks off only the failer that does not rely on one)
                            5 if self.r.chance(1, 2) => Stmt::PreludeFail(if self.p.type_checks_off {
                                2
                            } else {
                                self.r.usize_below(PRELUDE_FAILS.len()) as u8
                            }),
                            3 if self.r.chance(1, 3) => Stmt::Misc(self.r.usize_below(MISC_FNS.len()) as u8),
                            3 if !self.p.type_checks_off => Stmt::PreludeFail(self.r.usize_below(PRELUDE_FAILS.len()) as u8),
                            4 if self.r.chance(1, 2) => Stmt::Fall(self.r.usize_below(FALL.len()) as u8, self.r.chance(1, 2)),
                            4 | 5 => Stmt::Tiny(
                                self.r.below(3) as u8,
                                self.r.usize_below(TINY.len()) as u8,
                                self.r.chance(2, 3),
                            ),
                            0 => Stmt::MapIndexBadKey,
                            2 if self.r.chance(1, 2) => Stmt::Calm(
                                self.r.below(3) as u8,
                                self.r.usize_below(CALM_SOURCES.len()) as u8,
                                (*self.r.pick(&[2u32, 30, 100, 270, 270, 600])).min(self.k.max_storm * 3),
                            ),
                            1 => Stmt::NativeOpFail(self.r.usize_below(NATIVE_OP_FAILS.len()) as u8),
                            _ => Stmt::Storm(
                                self.r.below(3) as u8,
                                self.r.usize_below(STORM_SOURCES.len()) as u8,
                                (*self.r.pick(&[2u32, 5, 30, 100, 100, 270])).min(self.k.max_storm),
                            ),
                        }
                    } else {
                        self.p.n_tries += 1;
                        let id = self.p.n_tries;
                        let cb = Ctx { depth: c.depth + 2, no_abrupt: true, in_try: true, ..c };
                        let pre = self.block(cb, false);
                        let val = self.int_expr(2, c);
                        let handler = self.block(cb, false);
                        Stmt::LoopTryBreak(self.r.below(3) as u8, id, pre, val, handler)
                    }
                }
                27 => match self.r.below(3) {
                    0 => Stmt::AddAssign(self.r.below(3) as u8, self.int_expr(2, c)),
                    1 => Stmt::ChainAssign(self.r.below(3) as u8, self.int_expr(1, c)),
                    _ => Stmt::MatchAssign(
                        self.r.below(3) as u8,
                        self.int_expr(1, c),
                        self.int_expr(1, c),
                    ),
                },
                26 => {
                    let funcs = self.callable_funcs();
                    if funcs.is_empty() {
                        continue;
                    }
                    let func = *self.r.pick(&funcs);
                    self.p.n_calls += 1;
                    if self.r.chance(1, 2) {
                        return Stmt::KeyChainCall(
                            self.r.below(3) as u8,
                            func,
                            self.small_int_expr(c),
                            self.p.n_calls,
                            self.r.below(4) as u8,
                        );
                    }
                    Stmt::AssignLambdaCall(
                        self.r.below(3) as u8,
                        func,
                        self.small_int_expr(c),
                        self.p.n_calls,
                    )
                }
                _ => continue,
            };
            return s;
        }
    }

    fn try_stmt(&mut self, c: Ctx) -> Try {
        self.p.n_tries += 1;
        let id = self.p.n_tries;
        let has_finally = self.k.allow_finally && self.r.chance(1, 3);
        let with_result = self.k.allow_try_result && self.r.chance(1, 2);
        let tuple_prefix = if with_result && self.r.chance(1, 4) {
            Some(self.small_int_expr(c))
        } else {
            None
        };
        let c_body = Ctx {
            depth: c.depth + 1,
            tries_in_loop: c.tries_in_loop + 1,
            in_try: true,
            in_finally_try: c.in_finally_try || has_finally,
            no_abrupt: c.no_abrupt || tuple_prefix.is_some(),
            ..c
        };
        let body = self.block(c_body, with_result);
        // catches: 0-2 typed ones, then the mandatory untyped one
        let mut catches = vec![];
        let ntyped = if self.k.allow_typed { self.r.below(3) } else { 0 };
        for _ in 0..ntyped {
            let kind = if self.r.chance(1, 3) {
                CatchKind::String
            } else if self.r.chance(1, 5) {
                CatchKind::Number
            } else if self.r.chance(1, 3) {
                match self.r.below(7) {
                    0 => CatchKind::MapCode,
                    1 => CatchKind::MapCodeTyped(self.r.range(1, 2) as u8),
                    2 => CatchKind::NeverLocal(self.r.below(3) as u8),
                    3 => CatchKind::StringOpt,
                    4 => CatchKind::TypedOpt(self.r.range(1, 2) as u8),
                    5 => CatchKind::MapCodeNum,
                    6 if self.r.chance(1, 2) => CatchKind::MapCodeCount,
                    _ => CatchKind::MapMissing,
                }
            } else {
                CatchKind::Typed(self.r.range(1, 2) as u8)
            };
            catches.push(Catch {
                kind,
                block: self.block(c_body, with_result),
            });
        }
        // the last catch block accepts everything — or is a map pattern (the only kind of
        // selective catch the compiler allows in last position): what it does not accept must
        // propagate to the next enclosing handler
        let last_kind = if self.k.allow_typed && self.r.chance(1, 6) {
            match self.r.below(5) {
                0 => CatchKind::MapCode,
                1 => CatchKind::MapCodeTyped(self.r.range(1, 2) as u8),
                2 => CatchKind::MapCodeCount,
                _ => CatchKind::MapMissing,
            }
        } else {
            CatchKind::Any
        };
        catches.push(Catch {
            kind: last_kind,
            block: self.block(c_body, with_result),
        });
        if self.k.dense_exits && c.loop_level > 0 && !c.in_finally && !c_body.no_abrupt && self.r.chance(2, 3) {
            for cb in catches.iter_mut() {
                let last_terminal = cb
                    .block
                    .stmts
                    .last()
                    .is_some_and(|s| matches!(s, Stmt::Break | Stmt::Continue | Stmt::Return(_) | Stmt::Throw(_)));
                if !last_terminal {
                    let exit = if self.r.chance(1, 2) { Stmt::Break } else { Stmt::Continue };
                    if self.r.chance(1, 2) {
                        cb.block.stmts.push(exit);
                    } else {
                        let cond = Cond::Eq(Expr::LoopVar(c.loop_level - 1), self.r.irange(0, 1));
                        cb.block.stmts.push(Stmt::If(cond, Block { stmts: vec![exit], tail: None }, Block::default()));
                    }
                }
            }
        }
        let finally = if has_finally {
            let c_fin = Ctx {
                depth: c.depth + 1,
                in_finally: true,
                no_abrupt: c.no_abrupt || tuple_prefix.is_some(),
                ..c
            };
            Some(self.block(c_fin, with_result))
        } else {
            None
        };
        Try {
            tuple_prefix,
            id,
            result: if with_result { Some(self.r.below(3) as u8) } else { None },
            body,
            catches,
            finally,
        }
    }
}

pub fn generate(r: &mut Rng, k: &GenKnobs) -> Program {
    let nfuncs = r.range(0, k.max_funcs as u64) as usize;
    let mut g = Gen {
        r,
        k,
        p: Program {
            type_checks_off: k.type_checks_off,
            ..Default::default()
        },
        cur: 0,
        nfuncs,
        budget: 0,
    };
    let base = Ctx {
        depth: 0,
        loop_level: 0,
        tries_in_loop: 0,
        in_try: false,
        in_finally_try: false,
        in_func: true,
        in_finally: false,
        no_abrupt: false,
    };
    // generate callees last-first so that every function can call the ones after it
    let mut funcs = vec![Func::default(); nfuncs];
    for i in (0..nfuncs).rev() {
        g.cur = i;
        g.budget = 14;
        let body = g.block(base, false);
        let ret = Some(g.int_expr(1, base));
        funcs[i] = Func { body, ret };
    }
    g.cur = usize::MAX;
    g.budget = 22;
    let cm = Ctx { in_func: false, ..base };
    let body = g.block(cm, false);
    let ret = Some(g.int_expr(1, cm));
    g.p.funcs = funcs;
    g.p.main = Func { body, ret };
    g.p
}

// ---------------------------------------------------------------------------------------------
// Printing to Koto source

pub struct Printed {
    /// C_FOLDT: (line of the `.fold` call, line of the function literal's body)
    pub foldt_lines: (u32, u32),
    /// per function: line of `f<i>(other)` inside OPT<i>'s `@+`
    pub opt_inner_line: Vec<u32>,
    /// per function: line of `yield f<i>(x)` in GEN<i>
    pub gen_yield_line: Vec<u32>,
    /// per function: line of `for v in g` in GENSUML<i>
    pub gensuml_for_line: Vec<u32>,
    /// AssignLambdaCall: call site id -> line of the call inside the function literal
    pub lambda_call_line: std::collections::BTreeMap<u32, u32>,
    /// line of `z = a + b` in the GAYGEN helper (first statement after a yield)
    pub gay_line: u32,
    /// line of `g(a)` in the C_APPLY helper
    pub apply_line: u32,
    pub source: String,
    /// 1-based source line of each tick site (indexed by tick id)
    pub tick_line: Vec<u32>,
    /// 1-based source line of each call site (indexed by call site id)
    pub call_line: Vec<u32>,
    /// first line of each printed statement, by the statement's address in the printed
    /// `Program` (0 / absent = unknown, e.g. when the model runs on a clone)
    pub stmt_line: std::collections::HashMap<usize, u32>,
    /// first line of each `PRELUDE_FAILS` helper
    pub prelude_fail_line: Vec<u32>,
    pub lines: u32,
}

pub struct PrintOpts {
    /// insert comment / blank lines / multi-line literals before statements (C12 layout noise)
    pub noise_seed: Option<u64>,
    /// emit `export` for the main block's final values (histsim)
    pub main_is_module_body: bool,
    /// define the global list (`export GL = []`); false for later operations of a history,
    /// which keep using the list exported by the first one
    pub define_globals: bool,
    /// exported `@test` functions (function index, argument), in definition order (histsim)
    pub tests: Vec<(usize, i64)>,
    /// exported `@main` calling f<k>(arg) (histsim)
    pub main_call: Option<(usize, i64)>,
}

struct Printer {
    /// line of the `f(q3)` call inside the function literal of an AssignLambdaCall, by site
    lambda_call_line: std::collections::BTreeMap<u32, u32>,
    /// adaptor chains used by the program: their helper functions are emitted on demand
    chains: std::collections::BTreeSet<(u8, u8)>,
    stmt_line: std::collections::HashMap<usize, u32>,
    out: Vec<String>,
    tick_line: Vec<u32>,
    call_line: Vec<u32>,
    noise: Option<Rng>,
}

pub const PRELUDE_HELPERS: &str = "";

fn ind(n: usize) -> String {
    "  ".repeat(n)
}

impl Printer {
    fn line(&mut self, indent: usize, text: &str) {
        self.out.push(format!("{}{}", ind(indent), text));
    }

    fn cur_line(&self) -> u32 {
        self.out.len() as u32 + 1
    }

    fn noise(&mut self, indent: usize) {
        let Some(r) = self.noise.as_mut() else { return };
        match r.below(12) {
            0 => self.out.push(format!("{}# note {}", ind(indent), r.below(100))),
            1 => self.out.push(String::new()),
            2 => {
                let a = r.below(9);
                self.out.push(format!("{}zz = [", ind(indent)));
                self.out.push(format!("{}  {a},", ind(indent)));
                self.out.push(format!("{}  {},", ind(indent), a + 1));
                self.out.push(format!("{}]", ind(indent)));
            }
            3 => {
                self.out.push(format!(
                    "{}zs = 'a fairly long string literal that only pads the line {}'",
                    ind(indent),
                    r.below(100)
                ));
            }
            4 => {
                self.out.push(format!("{}#-", ind(indent)));
                self.out.push(format!("{}  block comment", ind(indent)));
                self.out.push(format!("{}-#", ind(indent)));
            }
            _ => {}
        }
    }

    fn expr(&mut self, e: &Expr) -> String {
        match e {
            Expr::Int(v) => {
                if *v < 0 {
                    format!("({v})")
                } else {
                    v.to_string()
                }
            }
            Expr::Var(i) => format!("i{i}"),
            Expr::Param => "a".into(),
            Expr::LoopVar(l) => format!("j{l}"),
            Expr::Tick(id, shape) => {
                let line = self.cur_line();
                let ix = *id as usize;
                if self.tick_line.len() <= ix {
                    self.tick_line.resize(ix + 1, 0);
                }
                self.tick_line[ix] = line;
                match shape {
                    TickShape::Plain => format!("tick({id}, 0)"),
                    TickShape::Add => format!("(tick({id}, 1) + 0)"),
                    TickShape::Index => format!("({id} + IDX[tick({id}, 2) - {id}])"),
                    TickShape::GenAdd => format!("C_GAY(tick({id}, 1))"),
                }
            }
            Expr::Add(a, b) => {
                let a = self.expr(a);
                let b = self.expr(b);
                format!("({a} + {b})")
            }
            Expr::ListSize => "(size l0)".into(),
            Expr::Call(c) => {
                let line = self.cur_line();
                let ix = c.site as usize;
                if self.call_line.len() <= ix {
                    self.call_line.resize(ix + 1, 0);
                }
                self.call_line[ix] = line;
                let a = self.expr(&c.arg);
                let f = format!("f{}", c.func);
                match c.conduit {
                    Conduit::Plain => {
                        if c.drop_arg {
                            format!("{f}()")
                        } else {
                            format!("{f}({a})")
                        }
                    }
                    Conduit::Piped => format!("C_PIPE({f}, {a})"),
                    Conduit::Method => format!("OBJ.m{}({a})", c.func),
                    Conduit::Each => format!("C_EACH({f}, {a})"),
                    Conduit::Keep => format!("C_KEEP({f}, {a})"),
                    Conduit::Fold => format!("C_FOLD({f}, {a})"),
                    Conduit::Find => format!("C_FIND({f}, {a})"),
                    Conduit::Transform => format!("C_TRANSFORM({f}, {a})"),
                    Conduit::Retain => format!("C_RETAIN({f}, {a})"),
                    Conduit::SortKey => format!("C_SORTKEY({f}, {a})"),
                    Conduit::MapUpdate => format!("C_MAPUPDATE({f}, {a})"),
                    Conduit::KotoRun => format!("koto.run('{f}({a})')"),
                    Conduit::OpAdd => format!("(OP{} + {a})", c.func),
                    Conduit::OpIndex => format!("OP{}[{a}]", c.func),
                    Conduit::OpCall => format!("OP{}({a})", c.func),
                    Conduit::OpNegate => format!("(-OP{})", c.func),
                    Conduit::OpSize => format!("(size OP{})", c.func),
                    Conduit::OpLess => format!("(if OP{} < {a} then 1 else 0)", c.func),
                    Conduit::OpEqInList => format!("(if [OP{0}] == [{a}] then 1 else 0)", c.func),
                    Conduit::OpGe => format!("(if OPL{} >= {a} then 1 else 0)", c.func),
                    Conduit::OpLe => format!("(if OPLE{} <= {a} then 1 else 0)", c.func),
                    Conduit::OpGt => format!("(if OPLE{} > {a} then 1 else 0)", c.func),
                    Conduit::OpNe => format!("(if OPE{} != {a} then 1 else 0)", c.func),
                    Conduit::Display => format!("(size 'x{{OPD{}}}y')", c.func),
                    Conduit::DisplayInList => format!("(size 'x{{[OPD{}]}}y')", c.func),
                    Conduit::GenFor => format!("GENSUM{}({a})", c.func),
                    Conduit::GenNext => format!("GEN{}({a}).next().get()", c.func),
                    Conduit::GenFold => format!("GEN{}({a}).fold(0, |acc, x| acc + x)", c.func),
                    Conduit::GenAgain => format!("C_GENAGAIN({f}, {a})"),
                    Conduit::GenCatchFor => format!("GENCSUM{}({a})", c.func),
                    Conduit::GenYieldInTry => format!("GENYSUM{}({a})", c.func),
                    Conduit::FoldTraced => format!("C_FOLDT({f}, {a})"),
                    Conduit::OpAddTraced => format!("(OPT{} + {a})", c.func),
                    Conduit::GenLocalFor => format!("GENSUML{}({a})", c.func),
                    Conduit::OpIterator => format!("ITSUM{}()", c.func),
                    Conduit::Chain(ad, co) => {
                        self.chains.insert((ad, co));
                        if co == CHAIN_FOR {
                            format!("C_CHFOR{ad}({f}, {a})")
                        } else {
                            format!("C_CH{ad}_{co}({f}, {a})")
                        }
                    }
                    Conduit::Native2(i) => format!("{}({f}, {a})", NATIVE2[i as usize].0),
                }
            }
        }
    }

    fn cond(&mut self, c: &Cond) -> String {
        match c {
            Cond::Eq(e, v) => format!("{} == {}", self.expr(e), v),
            Cond::Gt(e, v) => format!("{} > {}", self.expr(e), v),
        }
    }

    fn block(&mut self, b: &Block, indent: usize) {
        self.block_with_tail(b, indent, false)
    }

    /// `tail_used`: the block's value is consumed (e.g. it is the value of a `try` expression
    /// that is assigned). An unused tail is assigned to a scratch local instead, because the
    /// compiler elides pure operators whose result is unused.
    fn block_with_tail(&mut self, b: &Block, indent: usize, tail_used: bool) {
        for s in &b.stmts {
            self.stmt(s, indent);
        }
        if let Some(t) = &b.tail {
            self.noise(indent);
            let e = self.expr(t);
            if tail_used {
                self.line(indent, &e);
            } else {
                self.line(indent, &format!("xx = {e}"));
            }
        }
        if b.stmts.is_empty() && b.tail.is_none() {
            self.line(indent, "null");
        }
    }

    fn stmt(&mut self, s: &Stmt, indent: usize) {
        self.noise(indent);
        // the model finds the line of a statement through the statement's address (printer and
        // model walk the same `Program` value)
        self.stmt_line.insert(s as *const Stmt as usize, self.cur_line());
        match s {
            Stmt::Mark(n) => self.line(indent, &format!("mark({n})")),
            Stmt::Assign(v, e) => {
                let e = self.expr(e);
                self.line(indent, &format!("i{v} = {e}"));
            }
            Stmt::AssignStr(parts) => {
                let mut t = String::from("s0 = '");
                for p in parts {
                    match p {
                        StrPart::Text(x) => t.push_str(x),
                        StrPart::Int(e) => {
                            let e = self.expr(e);
                            t.push_str(&format!("{{{e}}}"));
                        }
                    }
                }
                t.push('\'');
                self.line(indent, &t);
            }
            Stmt::AssignList(es) => {
                let multi_line = self.noise.as_mut().is_some_and(|r| r.chance(1, 2));
                if multi_line {
                    // one element per line: a failing element is on its own line
                    self.line(indent, "l0 = [");
                    for e in es {
                        let t = self.expr(e);
                        self.line(indent + 1, &format!("{t},"));
                    }
                    self.line(indent, "]");
                } else {
                    let es: Vec<String> = es.iter().map(|e| self.expr(e)).collect();
                    self.line(indent, &format!("l0 = [{}]", es.join(", ")));
                }
            }
            Stmt::Push(e) => {
                let e = self.expr(e);
                self.line(indent, &format!("l0.push({e})"));
            }
            Stmt::GlobalPush(e) => {
                let e = self.expr(e);
                self.line(indent, &format!("GL.push({e})"));
            }
            Stmt::MapSet(k, e) => {
                let e = self.expr(e);
                self.line(indent, &format!("m0.k{k} = {e}"));
            }
            Stmt::Print(e) => {
                let e = self.expr(e);
                self.line(indent, &format!("print({e})"));
            }
            Stmt::If(c, t, e) => {
                let c = self.cond(c);
                self.line(indent, &format!("if {c}"));
                self.block(t, indent + 1);
                if !e.stmts.is_empty() {
                    self.line(indent, "else");
                    self.block(e, indent + 1);
                }
            }
            Stmt::For(level, n, b) => {
                self.line(indent, &format!("for j{level} in 0..{n}"));
                self.block(b, indent + 1);
            }
            Stmt::While(level, n, b) => {
                self.line(indent, &format!("j{level} = -1"));
                self.line(indent, &format!("while j{level} < {}", *n as i64 - 1));
                self.line(indent + 1, &format!("j{level} += 1"));
                self.block(b, indent + 1);
            }
            Stmt::Break => self.line(indent, "break"),
            Stmt::Continue => self.line(indent, "continue"),
            Stmt::Return(e) => {
                let e = self.expr(e);
                self.line(indent, &format!("return {e}"));
            }
            Stmt::Throw(ThrowKind::Str(n)) => self.line(indent, &format!("throw 'E{n}'")),
            Stmt::Throw(ThrowKind::Typed(k, e)) => {
                let e = self.expr(e);
                self.line(indent, &format!("throw MKERR{k}({e})"));
            }
            Stmt::Throw(ThrowKind::Num(e)) => {
                let e = self.expr(e);
                self.line(indent, &format!("throw {e}"));
            }
            Stmt::Throw(ThrowKind::Plain(e)) => {
                let e = self.expr(e);
                self.line(indent, &format!("throw {{code: {e}}}"));
            }
            Stmt::Throw(ThrowKind::TypedLayout(k, e, layout)) => {
                if *layout == 1 {
                    self.line(indent, &format!("throw MKERR{k}("));
                    let e = self.expr(e);
                    self.line(indent + 1, &e);
                    self.line(indent, ")");
                } else {
                    self.line(indent, "throw");
                    let e = self.expr(e);
                    self.line(indent + 1, &format!("code: {e}"));
                    self.line(indent + 1, &format!("@type: 'T{k}'"));
                    self.line(indent + 1, &format!("@display: || 'T{k}({{self.code}})'"));
                }
            }
            Stmt::Try(t) => {
                match (&t.tuple_prefix, t.result) {
                    (Some(pre), Some(_)) => {
                        let pre = self.expr(pre);
                        self.line(indent, &format!("tq = {pre}, try"));
                    }
                    (_, Some(v)) => self.line(indent, &format!("i{v} = try")),
                    (_, None) => self.line(indent, "try"),
                }
                let body_tail_used = t.result.is_some() && t.finally.is_none();
                self.block_with_tail(&t.body, indent + 1, body_tail_used);
                for c in &t.catches {
                    match c.kind {
                        CatchKind::Typed(k) => self.line(indent, &format!("catch e: T{k}")),
                        CatchKind::String => self.line(indent, "catch e: String"),
                        CatchKind::Number => self.line(indent, "catch e: Number"),
                        CatchKind::Any => self.line(indent, "catch e"),
                        CatchKind::MapCode => self.line(indent, "catch {code}"),
                        CatchKind::MapCodeTyped(k) => self.line(indent, &format!("catch {{code}}: T{k}")),
                        CatchKind::MapMissing => self.line(indent, "catch {nokey}"),
                        CatchKind::NeverLocal(v) => self.line(indent, &format!("catch i{v}: Bool")),
                        CatchKind::StringOpt => self.line(indent, "catch e: String?"),
                        CatchKind::TypedOpt(k) => self.line(indent, &format!("catch e: T{k}?")),
                        CatchKind::MapCodeNum => self.line(indent, "catch {code: Number}"),
                        CatchKind::MapCodeCount => self.line(indent, "catch {code, count}"),
                    }
                    match c.kind {
                        CatchKind::NeverLocal(v) => self.line(indent + 1, &format!("caught({}, i{v})", t.id)),
                        CatchKind::MapCode | CatchKind::MapCodeTyped(_) | CatchKind::MapCodeNum | CatchKind::MapCodeCount => {
                            self.line(indent + 1, &format!("caught({}, code)", t.id))
                        }
                        CatchKind::MapMissing => self.line(indent + 1, &format!("caught({}, nokey)", t.id)),
                        _ => self.line(indent + 1, &format!("caught({}, e)", t.id)),
                    }
                    self.block_with_tail(&c.block, indent + 1, body_tail_used);
                }
                if let Some(f) = &t.finally {
                    self.line(indent, "finally");
                    self.block_with_tail(f, indent + 1, t.result.is_some());
                }
                if let (Some(_), Some(v)) = (&t.tuple_prefix, t.result) {
                    self.line(indent, &format!("i{v} = tq[1]"));
                }
                self.line(indent, &format!("dump({}, i0, i1, i2, s0, l0, m0, GL, GM)", 1000 + t.id));
            }
            Stmt::Dump(n) => self.line(indent, &format!("dump({n}, i0, i1, i2, s0, l0, m0, GL, GM)")),
            Stmt::MapIndexBadKey => self.line(indent, "m0[0] = (l0, 1)"),
            Stmt::NativeOpFail(k) => self.line(indent, &format!("xx = {}", NATIVE_OP_FAILS[*k as usize].0)),
            Stmt::ImportStep(v, ok) => {
                if *ok {
                    // (a fresh alias every time: two imports of one name in one scope, the
                    // first of which may not have run, are C18's business, not this engine's)
                    let n = self.cur_line();
                    self.line(indent, &format!("import okmod as om{n}"));
                    self.line(indent, &format!("i{v} = om{n}.x + 41"));
                } else {
                    self.line(indent, "try");
                    self.line(indent + 1, "import failtop");
                    self.line(indent, "catch e");
                    self.line(indent + 1, &format!("i{v} = 40"));
                    self.line(indent, &format!("export EX{v} = i{v} + 1"));
                    self.line(indent, &format!("i{v} = (|| EX{v} + 1)()"));
                }
            }
            Stmt::Fall(k, flag) => self.line(indent, &format!("xx = FALL{k}({flag})")),
            Stmt::PreludeFail(k) => self.line(indent, &format!("xx = {}", PRELUDE_FAILS[*k as usize].2)),
            Stmt::Misc(k) => self.line(indent, &format!("xx = {}", MISC_FNS[*k as usize].1)),
            Stmt::AssignOrThrow(v, cexp, e, n, form) => {
                let cexp = self.expr(cexp);
                if *form == 0 {
                    let e = self.expr(e);
                    self.line(indent, &format!("i{v} = if {cexp} > 0 then {e} else throw 'E{n}'"));
                } else {
                    self.line(indent, &format!("i{v} = match {cexp}"));
                    self.line(indent + 1, &format!("0 then throw 'E{n}'"));
                    let e = self.expr(e);
                    self.line(indent + 1, &format!("else {e}"));
                }
            }
            Stmt::SortFailKeeps(v) => {
                self.line(indent, "ls = [3, 'a', 1]");
                self.line(indent, "try");
                self.line(indent + 1, "ls.sort()");
                self.line(indent, "catch e");
                self.line(indent + 1, &format!("i{v} = size ls"));
            }
            Stmt::GlobalMapBadKey => self.line(indent, "GM[0] = (l0, 1)"),
            Stmt::Tiny(v, k, bad) => {
                let t = &TINY[*k as usize];
                self.line(indent, &format!("i{v} = TINY{k}({})", if *bad { t.3 } else { t.1 }));
            }
            Stmt::Storm(v, k, n) => {
                self.line(indent, &format!("for rr in 0..{n}"));
                self.line(indent + 1, "try");
                self.line(indent + 2, STORM_SOURCES[*k as usize]);
                self.line(indent + 1, "catch e");
                self.line(indent + 2, &format!("i{v} += 1"));
            }
            Stmt::Calm(v, k, n) => {
                let (pre, body, expected) = CALM_SOURCES[*k as usize];
                self.line(indent, pre);
                self.line(indent, &format!("for rr in 0..{n}"));
                self.line(indent + 1, body);
                self.line(indent, &format!("i{v} += (if '{{xx}}' == '{expected}' then 1 else 1000)"));
            }
            Stmt::LoopTryBreak(v, id, pre, val, handler) => {
                self.line(indent, &format!("i{v} = loop"));
                self.line(indent + 1, "try");
                self.block(pre, indent + 2);
                let val = self.expr(val);
                self.line(indent + 2, &format!("break {val}"));
                self.line(indent + 1, "catch e");
                self.line(indent + 2, &format!("caught({id}, e)"));
                self.block(handler, indent + 2);
                self.line(indent + 2, "break -7");
                self.line(indent, &format!("dump({}, i0, i1, i2, s0, l0, m0, GL, GM)", 1000 + id));
            }
            Stmt::AddAssign(v, e) => {
                let e = self.expr(e);
                self.line(indent, &format!("i{v} += {e}"));
            }
            Stmt::ChainAssign(v, e) => {
                self.line(indent, &format!("i{v} = (0..1)"));
                let e = self.expr(e);
                self.line(indent + 1, &format!(".each |x| x + {e}"));
                self.line(indent + 1, ".fold 0, |p, q| p + q");
            }
            Stmt::MatchAssign(v, e, e2) => {
                let e = self.expr(e);
                self.line(indent, &format!("i{v} = match {e}"));
                self.line(indent + 1, "0 then 10");
                self.line(indent + 1, "x if x == 123456789 then 11");
                let e2 = self.expr(e2);
                self.line(indent + 1, &format!("else {e2}"));
            }
            Stmt::KeyChainCall(v, func, arg, site, form) => {
                self.line(indent, &format!("i{v} = QM"));
                if form & 2 != 0 {
                    self.line(indent + 1, ".sub");
                }
                let a = self.expr(arg);
                let ix = *site as usize;
                if self.call_line.len() <= ix + 1 {
                    self.call_line.resize(ix + 2, 0);
                }
                self.call_line[ix] = self.cur_line();
                if form & 1 != 0 {
                    self.line(indent + 1, &format!(".g{func}({a})"));
                } else {
                    self.line(indent + 1, &format!(".'f {func}'({a})"));
                }
            }
            Stmt::AssignLambdaCall(v, func, arg, site) => {
                let ix = *site as usize;
                if self.call_line.len() <= ix + 1 {
                    self.call_line.resize(ix + 2, 0);
                }
                self.call_line[ix] = self.cur_line();
                if site % 4 == 1 {
                    // a parenthesised call spread over several lines, with a typed one-line
                    // function literal on a line of its own: the call site is the FIRST line
                    self.line(indent, &format!("i{v} = C_APPLY("));
                    let a = self.expr(arg);
                    self.line(indent + 1, &format!("{a},"));
                    self.lambda_call_line.insert(*site, self.cur_line());
                    self.line(indent + 1, &format!("|x: Number| f{func}(x)"));
                    self.line(indent, ")");
                    return;
                }
                let a = self.expr(arg);
                // (a type hint on the function literal's argument in half of the sites)
                let hint = if site % 2 == 0 { ": Number" } else { "" };
                self.line(indent, &format!("i{v} = C_APPLY {a}, |x{hint}|"));
                self.line(indent + 1, "q1 = x");
                self.line(indent + 1, "q2 = q1 + 0");
                self.line(indent + 1, "q3 = q2");
                self.lambda_call_line.insert(*site, self.cur_line());
                self.line(indent + 1, &format!("f{func}(q3)"));
            }
            Stmt::Expr(e) => {
                // assigned to a scratch local: the compiler elides operators (overloaded ones
                // included) whose result is unused, which is not what is being studied here
                let e = self.expr(e);
                self.line(indent, &format!("xx = {e}"));
            }
        }
    }

    fn locals(&mut self, indent: usize) {
        self.line(indent, "i0 = 0");
        self.line(indent, "i1 = 0");
        self.line(indent, "i2 = 0");
        self.line(indent, "s0 = ''");
        self.line(indent, "l0 = []");
        self.line(indent, "m0 = {}");
    }
}

/// Renders the program; the helper objects for each conduit are emitted only for the
/// functions that exist.
pub fn print(p: &Program, opts: &PrintOpts) -> Printed {
    let mut pr = Printer {
        lambda_call_line: Default::default(),
        stmt_line: Default::default(),
        chains: Default::default(),
        out: vec![],
        tick_line: vec![0; p.n_ticks as usize + 1],
        call_line: vec![0; p.n_calls as usize + 1],
        noise: opts.noise_seed.map(Rng::new),
    };
    if p.type_checks_off {
        pr.line(0, TYPE_CHECKS_OFF_HEADER);
    }
    // a string with an escaped line feed (the line continuation) in front of everything else: it
    // is two source lines
    pr.line(0, "export CONT = 'ab\\");
    pr.line(0, "cd'");
    if opts.define_globals {
        pr.line(0, "export GL = []");
    }
    pr.line(0, "export GM = {ga: 1, gb: 2}");
    pr.line(0, "export IDX = (0,)");
    // the argument of a conduit is evaluated exactly once: multi-use goes through a helper
    pr.line(0, "export GAYGEN = |a, b|");
    pr.line(1, "yield 0");
    let gay_line = pr.cur_line();
    pr.line(1, "z = a + b");
    pr.line(1, "yield z");
    pr.line(0, "export C_GAY = |a|");
    pr.line(1, "g = GAYGEN(a, 0)");
    pr.line(1, "g.next()");
    pr.line(1, "return g.next().get()");
    pr.line(0, "export C_APPLY = |a, g|");
    let apply_line = pr.cur_line();
    pr.line(1, "return g(a)");
    pr.line(0, "export C_FOLDT = |f, a|");
    let foldt_call = pr.cur_line();
    pr.line(1, "return (a..=a + 1).fold 0, |acc, x|");
    let foldt_inner = pr.cur_line();
    pr.line(2, "acc + f(x)");
    pr.line(0, "export C_PIPE = |f, a| a -> f");
    pr.line(0, "export C_EACH = |f, a| (a..=a + 1).each(|x| f(x)).count()");
    pr.line(0, "export C_KEEP = |f, a| (a..=a + 1).keep(|x| f(x) > -100000).count()");
    pr.line(0, "export C_FOLD = |f, a| (a..=a + 1).fold(0, |acc, x| acc + f(x))");
    pr.line(0, "export C_FIND = |f, a| (a..=a + 1).find(|x| f(x) > -100000)");
    pr.line(0, "export C_TRANSFORM = |f, a| size [a, a + 1].transform(|x| f(x))");
    pr.line(0, "export C_RETAIN = |f, a| size [a, a + 1].retain(|x| f(x) > -100000)");
    pr.line(0, "export C_SORTKEY = |f, a| size [a, a + 1].sort(|x| f(x))");
    pr.line(0, "export C_MAPUPDATE = |f, a| {k: a}.update('k', |x| f(x))");
    pr.line(0, "export STORMOBJ =");
    for (key, body) in [
        ("@+", "|other| throw 'so'"),
        ("@-", "|other| throw 'so'"),
        ("@+=", "|other| throw 'so'"),
        ("@index", "|i| throw 'si'"),
        ("@call", "|x| throw 'sc'"),
        ("@negate", "|| throw 'sn'"),
        ("@<", "|other| throw 'sl'"),
        ("@==", "|other| throw 'se'"),
        ("@display", "|| throw 'sd'"),
        ("@size", "|| throw 'ss'"),
        ("@iterator", "|| throw 'sit'"),
    ] {
        pr.line(1, &format!("{key}: {body}"));
    }
    pr.line(0, "export CALMOBJ =");
    for (key, body) in [
        ("@+", "|other| 11"),
        ("@-", "|other| 12"),
        ("@*", "|other| 13"),
        ("@/", "|other| 14"),
        ("@%", "|other| 15"),
        ("@^", "|other| 16"),
        ("@r+", "|other| 17"),
        ("@+=", "|other| self"),
        ("@index", "|i| 18"),
        ("@index_assign", "|i, v| null"),
        ("@call", "|x| 19"),
        ("@negate", "|| 20"),
        ("@<", "|other| true"),
        ("@==", "|other| true"),
        ("@display", "|| 'CALM'"),
        ("@size", "|| 21"),
        ("@iterator", "|| (22, 23)"),
    ] {
        pr.line(1, &format!("{key}: {body}"));
    }
    pr.line(0, "export CALMNAT =");
    pr.line(1, "@+: koto.type");
    pr.line(1, "@*: koto.type");
    pr.line(1, "@<: number.is_nan");
    pr.line(1, "@==: number.is_nan");
    pr.line(0, "export CALMU =");
    pr.line(1, "@+: |other| throw koto.unimplemented");
    for (k, t) in TINY.iter().enumerate() {
        pr.line(0, &format!("export TINY{k} = |a, b|"));
        for l in t.0 {
            pr.line(1, l);
        }
    }
    let mut prelude_fail_line = vec![];
    for pf in PRELUDE_FAILS {
        prelude_fail_line.push(pr.cur_line());
        for l in pf.0 {
            pr.line(0, l);
        }
    }
    for (lines, _) in MISC_FNS {
        for l in *lines {
            pr.line(0, l);
        }
    }
    for (k, body) in FALL.iter().enumerate() {
        pr.line(0, &format!("export FALL{k} = |c|"));
        for l in *body {
            pr.line(1, l);
        }
    }
    pr.line(0, "export SINK2 = |p, q| 0");
    pr.line(0, "export UNPACKGEN = |f, a|");
    pr.line(1, "yield f(a)");
    pr.line(1, "yield f(a + 1)");
    // a generator that is pulled from again after it has failed: it must be finished, not
    // resume behind the instruction that failed
    pr.line(0, "export GENAGAIN = |f, a|");
    pr.line(1, "yield f(a)");
    pr.line(1, "mark(78)");
    pr.line(1, "yield f(a + 1)");
    pr.line(1, "mark(79)");
    pr.line(0, "export C_GENAGAIN = |f, a|");
    pr.line(1, "g = GENAGAIN(f, a)");
    pr.line(1, "n = 0");
    pr.line(1, "try");
    pr.line(2, "for v in g");
    pr.line(3, "n += 1");
    pr.line(1, "catch e");
    pr.line(2, "n = 10 + n");
    pr.line(2, "for v in g");
    pr.line(3, "n += 100");
    pr.line(2, "if g.next() != null");
    pr.line(3, "n += 1000");
    pr.line(2, "caught(0, e)");
    pr.line(1, "return n");
    // an object with `@next_back`: produces f(a), then f(a + 1), then ends
    pr.line(0, "export NBIT = |f, a|");
    pr.line(1, "n: 0");
    pr.line(1, "@next: || null");
    pr.line(1, "@next_back: ||");
    pr.line(2, "self.n += 1");
    pr.line(2, "if self.n > 2");
    pr.line(3, "return null");
    pr.line(2, "f(a + self.n - 1)");
    for (name, body) in NATIVE2 {
        pr.line(0, &format!("export {name} = |f, a|"));
        pr.line(1, &format!("zz = {body}"));
        pr.line(1, "return 0");
    }
    for k in 1..=2 {
        pr.line(0, &format!("export METAT{k} ="));
        pr.line(1, &format!("@type: 'T{k}'"));
        pr.line(1, &format!("@display: || 'T{k}({{self.code}})'"));
        pr.line(0, &format!("export MKERR{k} = |c| {{code: c}}.with_meta(METAT{k})"));
    }
    let mut opt_inner_line = vec![0u32; p.funcs.len()];
    let mut gen_yield_line = vec![0u32; p.funcs.len()];
    let mut gensuml_for_line = vec![0u32; p.funcs.len()];
    for (i, f) in p.funcs.iter().enumerate().rev() {
        pr.line(0, &format!("export f{i} = |a|"));
        pr.locals(1);
        pr.block(&f.body, 1);
        pr.line(1, &format!("dump({}, i0, i1, i2, s0, l0, m0, GL, GM)", 2000 + i));
        let e = pr.expr(f.ret.as_ref().unwrap());
        pr.line(1, &format!("return {e}"));
        // conduit helpers for this function
        pr.line(0, &format!("export OP{i} ="));
        pr.line(1, &format!("@+: |other| f{i}(other)"));
        pr.line(1, &format!("@index: |x| f{i}(x)"));
        pr.line(1, &format!("@call: |x| f{i}(x)"));
        pr.line(1, &format!("@negate: || f{i}(0)"));
        pr.line(1, &format!("@size: || f{i}(0)"));
        pr.line(1, &format!("@<: |other| f{i}(other) > -100000"));
        pr.line(1, &format!("@==: |other| f{i}(other) > -100000"));
        pr.line(0, &format!("export OPL{i} ="));
        pr.line(1, &format!("@<: |other| f{i}(other) > -100000"));
        pr.line(0, &format!("export OPLE{i} ="));
        pr.line(1, &format!("@<: |other| f{i}(other) < -100000"));
        pr.line(1, &format!("@==: |other| f{i}(other + 1) > -100000"));
        pr.line(0, &format!("export OPE{i} ="));
        pr.line(1, &format!("@==: |other| f{i}(other) > -100000"));
        pr.line(0, &format!("export OPD{i} ="));
        pr.line(1, &format!("@display: || 'D{{f{i}(0)}}'"));
        pr.line(0, &format!("export OPT{i} ="));
        pr.line(1, "@+: |other|");
        opt_inner_line[i] = pr.cur_line();
        pr.line(2, &format!("f{i}(other)"));
        pr.line(0, &format!("export GEN{i} = |n|"));
        pr.line(1, "for x in n..=n + 1");
        gen_yield_line[i] = pr.cur_line();
        pr.line(2, &format!("yield f{i}(x)"));
        pr.line(0, &format!("export GENSUML{i} = |n|"));
        pr.line(1, "s = 0");
        pr.line(1, &format!("g = GEN{i}(n)"));
        gensuml_for_line[i] = pr.cur_line();
        pr.line(1, "for v in g");
        pr.line(2, "s += v");
        pr.line(1, "return s");
        pr.line(0, &format!("export GENSUM{i} = |n|"));
        pr.line(1, "s = 0");
        pr.line(1, &format!("for v in GEN{i}(n)"));
        pr.line(2, "s += v");
        pr.line(1, "return s");
        pr.line(0, &format!("export GENC{i} = |n|"));
        pr.line(1, "for x in n..=n + 1");
        pr.line(2, "v = try");
        pr.line(3, &format!("f{i}(x)"));
        pr.line(2, "catch e");
        pr.line(3, "caught(0, e)");
        pr.line(3, "-1");
        pr.line(2, "yield v");
        pr.line(0, &format!("export GENCSUM{i} = |n|"));
        pr.line(1, "s = 0");
        pr.line(1, &format!("for v in GENC{i}(n)"));
        pr.line(2, "s += v");
        pr.line(1, "return s");
        pr.line(0, &format!("export GENY{i} = |n|"));
        pr.line(1, "for x in n..=n + 1");
        pr.line(2, "try");
        pr.line(3, &format!("yield f{i}(x)"));
        pr.line(3, &format!("yield f{i}(x + 10)"));
        pr.line(2, "catch e");
        pr.line(3, "caught(0, e)");
        pr.line(3, "yield -1");
        pr.line(0, &format!("export GENYSUM{i} = |n|"));
        pr.line(1, "s = 0");
        pr.line(1, &format!("for v in GENY{i}(n)"));
        pr.line(2, "s += v");
        pr.line(1, "return s");
        pr.line(0, &format!("export OPIT{i} ="));
        pr.line(1, &format!("@iterator: || GEN{i}(0)"));
        pr.line(0, &format!("export ITSUM{i} = ||"));
        pr.line(1, "s = 0");
        pr.line(1, &format!("for v in OPIT{i}"));
        pr.line(2, "s += v");
        pr.line(1, "return s");
    }
    if !p.funcs.is_empty() {
        pr.line(0, "export OBJ =");
        for i in 0..p.funcs.len() {
            pr.line(1, &format!("m{i}: |x| f{i}(x)"));
        }
    }
    if !p.funcs.is_empty() {
        pr.line(0, "export QM =");
        for i in 0..p.funcs.len() {
            pr.line(1, &format!("'f {i}': f{i}"));
            pr.line(1, &format!("g{i}: f{i}"));
        }
        pr.line(1, "sub:");
        for i in 0..p.funcs.len() {
            pr.line(2, &format!("'f {i}': f{i}"));
            pr.line(2, &format!("g{i}: f{i}"));
        }
    }
    // main is rendered into a separate buffer first so that the set of used chains is known
    let header_len = pr.out.len();
    pr.locals(0);
    pr.block(&p.main.body, 0);
    for (n, (k, a)) in opts.tests.iter().enumerate() {
        pr.line(0, &format!("@test t{n} = ||"));
        pr.line(1, &format!("f{k}({a})"));
    }
    if let Some((k, a)) = opts.main_call {
        pr.line(0, "@main = ||");
        pr.line(1, &format!("f{k}({a})"));
    }
    pr.line(0, "dump(3000, i0, i1, i2, s0, l0, m0, GL, GM)");
    let e = pr.expr(p.main.ret.as_ref().unwrap());
    pr.line(0, &e);
    // insert the helper definitions of the chains in use in front of main and shift the
    // recorded lines of main's sites accordingly
    let mut helpers = vec![];
    for (ad, co) in pr.chains.iter() {
        if *co == CHAIN_FOR {
            helpers.push(format!("export C_CHFOR{ad} = |f, a|"));
            helpers.push(format!(
                "  for v in {}",
                CHAIN_ADAPTORS[*ad as usize].0.replace("{S}", "(a..=a + 1).each(|x| f(x))")
            ));
            helpers.push("    mark(77)".to_string());
            helpers.push("  return 0".to_string());
            continue;
        }
        helpers.push(format!("export C_CH{ad}_{co} = |f, a|"));
        helpers.push(format!(
            "  ({}){}",
            CHAIN_ADAPTORS[*ad as usize].0.replace("{S}", "(a..=a + 1).each(|x| f(x))"),
            CHAIN_CONSUMERS[*co as usize].0
        ));
        helpers.push("  return 0".to_string());
    }
    if !helpers.is_empty() {
        let shift = helpers.len() as u32;
        let at = header_len as u32;
        for l in pr
            .tick_line
            .iter_mut()
            .chain(pr.call_line.iter_mut())
            .chain(pr.lambda_call_line.values_mut())
            .chain(pr.stmt_line.values_mut())
        {
            if *l > at {
                *l += shift;
            }
        }
        pr.out.splice(header_len..header_len, helpers);
    }
    let lines = pr.out.len() as u32;
    Printed {
        foldt_lines: (foldt_call, foldt_inner),
        opt_inner_line,
        gen_yield_line,
        gensuml_for_line,
        lambda_call_line: pr.lambda_call_line.clone(),
        gay_line,
        apply_line,
        // (C12 layout noise, a quarter of the noisy layouts: CR LF line ends)
        source: if opts.noise_seed.is_some_and(|n| (n >> 23) % 4 == 1) {
            pr.out.join("\r\n") + "\r\n"
        } else {
            pr.out.join("\n") + "\n"
        },
        tick_line: pr.tick_line,
        call_line: pr.call_line,
        stmt_line: pr.stmt_line,
        prelude_fail_line,
        lines,
    }
}
