//! The stream seam: a `KotoFile` that records writes and fails on command.

use koto::runtime::{KString, KotoFile, KotoRead, KotoWrite, Result as KResult};
use std::sync::{Arc, Mutex};

#[derive(Default)]
pub struct SimFileState {
    /// everything written so far
    pub out: String,
    /// write operations seen so far (write + write_line + flush)
    pub ops: u64,
    /// fail the write operation with this ordinal (1-based), once
    pub fail_at: Option<u64>,
    /// if true the failing write still reaches the sink before reporting the error
    pub fail_after_write: bool,
    /// number of faults that actually fired
    pub fired: u64,
    /// lines to serve from read_line
    pub input: Vec<String>,
}

#[derive(Clone, Default)]
pub struct SimFile {
    pub name: &'static str,
    pub state: Arc<Mutex<SimFileState>>,
}

impl SimFile {
    pub fn new(name: &'static str) -> Self {
        Self {
            name,
            state: Default::default(),
        }
    }
    pub fn take_output(&self) -> String {
        std::mem::take(&mut self.state.lock().unwrap().out)
    }
    pub fn output(&self) -> String {
        self.state.lock().unwrap().out.clone()
    }
    pub fn reset(&self) {
        let mut s = self.state.lock().unwrap();
        s.out.clear();
        s.ops = 0;
        s.fail_at = None;
        s.fired = 0;
    }
    fn op(&self, text: &str, newline: bool) -> KResult<()> {
        let mut s = self.state.lock().unwrap();
        s.ops += 1;
        let fail = s.fail_at == Some(s.ops);
        if !fail || s.fail_after_write {
            s.out.push_str(text);
            if newline {
                s.out.push('\n');
            }
        }
        if fail {
            s.fired += 1;
            s.fail_at = None;
            return koto::runtime::runtime_error!("simulated stream failure");
        }
        Ok(())
    }
}

impl KotoFile for SimFile {
    fn id(&self) -> KString {
        self.name.into()
    }
}

impl KotoRead for SimFile {
    fn read_line(&self) -> KResult<Option<String>> {
        let mut s = self.state.lock().unwrap();
        if s.input.is_empty() {
            Ok(None)
        } else {
            Ok(Some(s.input.remove(0)))
        }
    }
    fn read_to_string(&self) -> KResult<String> {
        let mut s = self.state.lock().unwrap();
        Ok(s.input.drain(..).collect())
    }
}

impl KotoWrite for SimFile {
    fn write(&self, bytes: &[u8]) -> KResult<()> {
        self.op(&String::from_utf8_lossy(bytes), false)
    }
    fn write_line(&self, text: &str) -> KResult<()> {
        self.op(text, true)
    }
    fn flush(&self) -> KResult<()> {
        Ok(())
    }
}
