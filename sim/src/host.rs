//! Building runtime instances wired to the simulator's seams:
//! `SimFile` streams, simulator-owned natives in the prelude, the virtual clock.

use crate::simio::SimFile;
use crate::vclock::VClock;
use koto::prelude::*;
use std::cell::RefCell;
use std::rc::Rc;
use std::sync::{Arc, Mutex};
use std::time::Duration;

pub const TIMEOUT_TEXT: &str = "execution timed out";

thread_local! {
    static CLOCK: RefCell<Option<Rc<VClock>>> = const { RefCell::new(None) };
}

/// Installs a virtual clock for this thread (H2) and returns it
pub fn install_clock() -> Rc<VClock> {
    let clock = Rc::new(VClock::default());
    CLOCK.with(|c| *c.borrow_mut() = Some(clock.clone()));
    koto::runtime::verif::install(Some(clock.clone()));
    clock
}

pub fn thread_clock() -> Option<Rc<VClock>> {
    CLOCK.with(|c| c.borrow().clone())
}

/// What the simulator-owned natives record during a run
#[derive(Default, Debug, Clone)]
pub struct RunLog {
    /// `mark(n)` calls in order
    pub markers: Vec<i64>,
    /// `caught(e)`: (carried the timeout text, first line of the rendered value)
    pub caught: Vec<(bool, String)>,
    /// `dump(tag, ...)` calls: rendered
    pub dumps: Vec<String>,
    /// charge per `slow()` call in virtual ns
    pub slow_ns: u64,
    pub slow_calls: u64,
}

pub type SharedLog = Arc<Mutex<RunLog>>;

pub struct Host {
    pub koto: Koto,
    pub stdout: SimFile,
    pub stderr: SimFile,
    pub log: SharedLog,
}

pub struct HostSettings {
    pub run_tests: bool,
    pub run_import_tests: bool,
    pub execution_limit_ns: Option<u64>,
    /// decides the order in which the builder helpers are applied
    pub builder_order_seed: u64,
}

impl Default for HostSettings {
    fn default() -> Self {
        Self {
            run_tests: true,
            run_import_tests: true,
            execution_limit_ns: None,
            builder_order_seed: 0,
        }
    }
}

pub fn first_line(s: &str) -> String {
    s.lines().next().unwrap_or("").to_string()
}

impl Drop for Host {
    fn drop(&mut self) {
        // exported functions refer to the exports map that holds them (a reference cycle under
        // both memory strategies): empty the map so that the instance is actually freed
        self.koto.exports_mut().clear();
    }
}

impl Host {
    pub fn new(settings: HostSettings) -> Self {
        let stdout = SimFile::new("sim_stdout");
        let stderr = SimFile::new("sim_stderr");
        // the settings are assembled with the public builder helpers, in an order chosen by the
        // caller's seed (configuration swarm): no setting may depend on where in the chain
        // another one was given
        let mut ks = KotoSettings::default();
        ks.run_tests = settings.run_tests;
        ks.vm_settings.run_import_tests = settings.run_import_tests;
        let mut steps: Vec<u8> = vec![0, 1, 2, 3, 4];
        let mut x = settings.builder_order_seed;
        for i in (1..steps.len()).rev() {
            x = crate::rng::splitmix64(x);
            steps.swap(i, (x % (i as u64 + 1)) as usize);
        }
        for st in steps {
            ks = match st {
                0 => ks.with_stdout(stdout.clone()),
                1 => ks.with_stderr(stderr.clone()),
                2 => ks.with_stdin(SimFile::new("sim_stdin")),
                3 => match settings.execution_limit_ns {
                    Some(ns) => ks.with_execution_limit(Duration::from_nanos(ns)),
                    None => ks,
                },
                _ => ks.with_args(["sim"]),
            };
        }
        let koto = Koto::with_settings(ks);
        let log: SharedLog = Default::default();
        let host = Self {
            koto,
            stdout,
            stderr,
            log,
        };
        host.add_basic_natives();
        host
    }

    fn add_basic_natives(&self) {
        let prelude = self.koto.prelude();

        let log = self.log.clone();
        prelude.add_fn("mark", move |ctx| {
            if let [KValue::Number(n)] = ctx.args() {
                log.lock().unwrap().markers.push(i64::from(n));
            }
            Ok(KValue::Null)
        });

        let log = self.log.clone();
        prelude.add_fn("caught", move |ctx| {
            let arg = ctx.args().first().cloned().unwrap_or(KValue::Null);
            let text = match &arg {
                KValue::Str(s) => s.to_string(),
                other => match ctx.vm.value_to_string(other) {
                    Ok(s) => s,
                    Err(e) => format!("<display failed: {e}>"),
                },
            };
            let is_timeout = text.contains(TIMEOUT_TEXT);
            log.lock()
                .unwrap()
                .caught
                .push((is_timeout, first_line(&text)));
            Ok(KValue::Null)
        });

        let log = self.log.clone();
        prelude.add_fn("slow", move |_ctx| {
            let ns = {
                let mut l = log.lock().unwrap();
                l.slow_calls += 1;
                l.slow_ns
            };
            if let Some(c) = thread_clock() {
                c.charge(ns);
            }
            Ok(KValue::Null)
        });
    }

    pub fn take_log(&self) -> RunLog {
        std::mem::take(&mut *self.log.lock().unwrap())
    }
}

/// Renders a result for comparison: Ok(value text) / Err(first line)
pub fn render_result(koto: &mut Koto, r: koto::Result<KValue>) -> Result<String, String> {
    match r {
        Ok(v) => match koto.value_to_string(v) {
            Ok(s) => Ok(s),
            Err(e) => Ok(format!("<display failed: {}>", first_line(&e.to_string()))),
        },
        Err(e) => Err(e.to_string()),
    }
}

thread_local! {
    static LAST_PANIC: RefCell<Option<String>> = const { RefCell::new(None) };
}

/// Replaces the panic hook: panics are recorded per thread instead of printed
/// (the harness catches them with `catch_unwind` and reports them itself)
pub fn install_quiet_panic_hook() {
    std::panic::set_hook(Box::new(|info| {
        let text = format!("{info}");
        LAST_PANIC.with(|p| *p.borrow_mut() = Some(text));
    }));
}

pub fn take_last_panic() -> Option<String> {
    LAST_PANIC.with(|p| p.borrow_mut().take())
}
