//! `clocksim` — decides C08 (the execution limit stops runaway scripts) under a virtual clock.
//!
//! scenario = spin shape x placement x context stack x limit x cost profile x clock behaviour.
//! Oracles: returns; returns the timeout error; per VM entry no instruction begins later than
//! that entry's deadline plus the algorithm's own slack; no catch block sees the timeout; the
//! instance is usable afterwards; terminating controls are unaffected.

use crate::host::{self, Host, HostSettings, RunLog, TIMEOUT_TEXT};
use crate::rng::{Digest, Rng};
use crate::vclock::{CostProfile, EntryRecord, StepCapExceeded, VClock};
use serde_json::{Value, json};
use std::panic::{AssertUnwindSafe, catch_unwind};
use std::rc::Rc;

// ---------------------------------------------------------------------------------------------
// Spec: the structured description a scenario is rendered from (what the shrinker works on)

#[derive(Clone, Copy, Debug, PartialEq, Eq, Hash)]
pub enum Spin {
    Loop,
    While,
    Until,
    ForEndless,
    Rec,
    PingPong,
    /// a loop whose body only applies overridden operators (arithmetic, a derived comparison)
    /// that complete: no ordinary call returns into the looping frame
    LoopOps,
}
pub const SPINS: &[Spin] = &[
    Spin::Loop,
    Spin::While,
    Spin::Until,
    Spin::ForEndless,
    Spin::Rec,
    Spin::PingPong,
    Spin::LoopOps,
];

#[derive(Clone, Copy, Debug, PartialEq, Eq, Hash)]
pub enum Meta {
    Add,
    AddRhsFallback,
    Eq,
    EqInList,
    Less,
    LessInSort,
    LessEqDerived,
    Display,
    /// `@display` reached while a container holding the object is rendered
    DisplayInList,
    DisplayInTuple,
    DisplayInMap,
    /// … through `print`
    DisplayViaPrint,
    /// … through the `debug` expression
    DisplayViaDebug,
    Index,
    Call,
    Size,
    Next,
    Iterator,
    Negate,
}
pub const METAS: &[Meta] = &[
    Meta::Add,
    Meta::AddRhsFallback,
    Meta::Eq,
    Meta::EqInList,
    Meta::Less,
    Meta::LessInSort,
    Meta::LessEqDerived,
    Meta::Display,
    Meta::DisplayInList,
    Meta::DisplayInTuple,
    Meta::DisplayInMap,
    Meta::DisplayViaPrint,
    Meta::DisplayViaDebug,
    Meta::Index,
    Meta::Call,
    Meta::Size,
    Meta::Next,
    Meta::Iterator,
    Meta::Negate,
];

#[derive(Clone, Copy, Debug, PartialEq, Eq, Hash)]
pub enum Native {
    Each,
    Keep,
    Fold,
    Find,
    Any,
    SortKey,
    Transform,
    Retain,
    MapUpdate,
}
pub const NATIVES: &[Native] = &[
    Native::Each,
    Native::Keep,
    Native::Fold,
    Native::Find,
    Native::Any,
    Native::SortKey,
    Native::Transform,
    Native::Retain,
    Native::MapUpdate,
];

#[derive(Clone, Copy, Debug, PartialEq, Eq, Hash)]
pub enum GenUse {
    For,
    Next,
    ToTuple,
    EachToList,
    /// the spinning generator is handed to an adaptor (as receiver or as argument) and the
    /// result is consumed by `for`: index into GEN_ADAPTORS
    Adapted(u8),
}
pub const GENUSES: &[GenUse] = &[
    GenUse::For,
    GenUse::Next,
    GenUse::ToTuple,
    GenUse::EachToList,
    GenUse::Adapted(0),
    GenUse::Adapted(1),
    GenUse::Adapted(2),
    GenUse::Adapted(3),
    GenUse::Adapted(4),
    GenUse::Adapted(5),
    GenUse::Adapted(6),
    GenUse::Adapted(7),
    GenUse::Adapted(8),
    GenUse::Adapted(9),
    GenUse::Adapted(10),
    GenUse::Adapted(11),
    GenUse::Adapted(12),
    GenUse::Adapted(13),
    GenUse::Adapted(14),
    GenUse::Adapted(15),
    GenUse::Adapted(16),
];
pub const GEN_ADAPTORS: &[&str] = &[
    "(1..=3).zip(sg())",
    "sg().zip(1..=3)",
    "(1..=3).chain(sg())",
    "sg().chain(1..=3)",
    "sg().skip(1)",
    "sg().step(2)",
    "sg().take(2)",
    "sg().enumerate()",
    "sg().chunks(2)",
    "sg().windows(2)",
    "sg().intersperse(0)",
    "sg().peekable()",
    "sg().cycle().take(3)",
    "sg().keep(|v| true)",
    "(1..=3).intersperse(|| sg().next())",
    // the generator (directly / through an adaptor) unpacked into call arguments
    "((|xs...| 0)(sg()...),)",
    "((|xs...| 0)(sg().each(|v| v)...),)",
];

#[derive(Clone, Copy, Debug, PartialEq, Eq, Hash)]
pub enum Phase {
    Top,
    Test,
    Main,
}

#[derive(Clone, Copy, Debug, PartialEq, Eq, Hash)]
pub enum Placement {
    Inline,
    Func(u8),
    Method,
    Meta(Meta),
    Native(Native),
    Gen(GenUse),
    KotoRun,
    Module(Phase),
    ScriptTest,
    ScriptMain,
}

#[derive(Clone, Copy, Debug, PartialEq, Eq, Hash)]
pub enum Ctx {
    Try,
    TryFinally,
    Retry(u8),
    Callee,
    GenBody,
    NativeCb,
    /// the entry expression sits inside a catch block that is handling another error
    InCatch,
    /// … inside a finally block
    InFinally,
}

#[derive(Clone, Debug)]
pub struct Spec {
    pub spin: Spin,
    /// call `slow()` in the spin body
    pub slow_in_body: bool,
    pub placement: Placement,
    /// outermost first
    pub contexts: Vec<Ctx>,
    /// Some(w): terminating control doing w iterations instead of spinning
    pub work: Option<u64>,
    pub limit_ns: u64,
    pub granularity: u64,
    pub profile: CostProfile,
    pub slow_ns: u64,
    pub run_tests: bool,
}

// ---------------------------------------------------------------------------------------------
// Scenario: explicit and self-contained (what is executed and what a replay file stores)

#[derive(Clone, Debug)]
pub struct Scenario {
    pub source: String,
    /// (file name relative to the scratch dir, text)
    pub modules: Vec<(String, String)>,
    pub terminating: bool,
    pub limit_ns: u64,
    pub granularity: u64,
    pub profile: CostProfile,
    pub slow_ns: u64,
    pub run_tests: bool,
    pub step_cap: u64,
    pub signature: String,
}

fn indent(lines: &[String]) -> Vec<String> {
    lines.iter().map(|l| format!("  {l}")).collect()
}

fn spin_lines(spec: &Spec) -> (Vec<String>, Vec<String>) {
    // returns (top level definitions, statement lines)
    let mut defs = vec![];
    let mut body = vec!["z += 1".to_string()];
    if spec.slow_in_body {
        body.push("slow()".to_string());
    }
    let mut lines = vec!["z = 0".to_string()];
    match (spec.spin, spec.work) {
        (Spin::Loop, None) => {
            lines.push("loop".into());
            lines.extend(indent(&body));
        }
        (Spin::Loop, Some(w)) => {
            lines.push("loop".into());
            lines.extend(indent(&body));
            lines.push(format!("  if z >= {w}"));
            lines.push("    break".into());
        }
        (Spin::While, None) => {
            lines.push("while true".into());
            lines.extend(indent(&body));
        }
        (Spin::While, Some(w)) => {
            lines.push(format!("while z < {w}"));
            lines.extend(indent(&body));
        }
        (Spin::Until, None) => {
            lines.push("until false".into());
            lines.extend(indent(&body));
        }
        (Spin::Until, Some(w)) => {
            lines.push(format!("until z >= {w}"));
            lines.extend(indent(&body));
        }
        (Spin::ForEndless, w) => {
            defs.push("export endless = ||".to_string());
            defs.push("  loop".to_string());
            defs.push("    yield 1".to_string());
            lines.push("for v in endless()".into());
            lines.extend(indent(&body));
            if let Some(w) = w {
                lines.push(format!("  if z >= {w}"));
                lines.push("    break".into());
            }
        }
        (Spin::Rec, w) => {
            // (the function is handed to itself: one that names itself captures itself, a
            // reference cycle koto never frees, which keeps the scenario's chunk alive)
            defs.push("export rec = |k, g|".to_string());
            if let Some(w) = w {
                defs.push(format!("  if k >= {w}"));
                defs.push("    return k".into());
            }
            if spec.slow_in_body {
                defs.push("  slow()".into());
            }
            defs.push("  g(k + 1, g)".to_string());
            lines = vec!["z = rec(0, rec)".into()];
        }
        (Spin::LoopOps, w) => {
            defs.push("export cmo =".to_string());
            defs.push("  @+: |other| self".to_string());
            defs.push("  @<: |other| false".to_string());
            lines.push("cx = cmo".into());
            lines.push("loop".into());
            lines.extend(indent(&body));
            lines.push("  cx = cx + 1".into());
            lines.push("  cq = cx >= 1".into());
            if let Some(w) = w {
                lines.push(format!("  if z >= {w}"));
                lines.push("    break".into());
            }
        }
        (Spin::PingPong, w) => {
            defs.push("export ping = |k|".to_string());
            if let Some(w) = w {
                defs.push(format!("  if k >= {w}"));
                defs.push("    return k".into());
            }
            defs.push("  pong(k + 1)".to_string());
            defs.push("export pong = |k|".to_string());
            if spec.slow_in_body {
                defs.push("  slow()".into());
            }
            defs.push("  ping(k + 1)".to_string());
            lines = vec!["z = ping(0)".into()];
        }
    }
    (defs, lines)
}

fn def_fn(name: &str, args: &str, body: &[String]) -> Vec<String> {
    let mut v = vec![format!("export {name} = |{args}|")];
    v.extend(indent(body));
    v
}

/// Renders a spec into an explicit scenario
pub fn render(spec: &Spec) -> Scenario {
    let (mut defs, spin) = spin_lines(spec);
    let mut modules = vec![];
    let mut trailer: Vec<String> = vec![];
    // the statement lines which, when executed, never terminate
    let mut entry: Vec<String>;
    let f1 = |defs: &mut Vec<String>| {
        defs.extend(def_fn("f1", "", &spin));
    };
    match spec.placement {
        Placement::Inline => entry = spin.clone(),
        Placement::Func(d) => {
            f1(&mut defs);
            for i in 2..=d.max(1) {
                defs.extend(def_fn(&format!("f{i}"), "", &[format!("f{}()", i - 1)]));
            }
            entry = vec![format!("f{}()", d.max(1))];
        }
        Placement::Method => {
            f1(&mut defs);
            defs.push("export obj = {m: |x| f1()}".into());
            entry = vec!["obj.m(1)".into()];
        }
        Placement::Meta(m) => {
            f1(&mut defs);
            let (key, args, e): (&str, &str, Vec<&str>) = match m {
                Meta::Add => ("@+", "other", vec!["w = mo + 1"]),
                Meta::AddRhsFallback => ("@r+", "other", vec!["w = 1 + mo"]),
                Meta::Eq => ("@==", "other", vec!["w = mo == 1"]),
                Meta::EqInList => ("@==", "other", vec!["w = [mo] == [mo]"]),
                Meta::Less => ("@<", "other", vec!["w = mo < 1"]),
                Meta::LessInSort => ("@<", "other", vec!["w = [mo, mo, mo, mo, mo, mo].sort()"]),
                Meta::LessEqDerived => ("@<", "other", vec!["w = mo >= 1"]),
                Meta::Display => ("@display", "", vec!["w = 'a{mo}b'"]),
                Meta::DisplayInList => ("@display", "", vec!["w = 'a{[mo]}b'"]),
                Meta::DisplayInTuple => ("@display", "", vec!["w = 'a{(mo, 1)}b'"]),
                Meta::DisplayInMap => ("@display", "", vec!["m2 = {k: mo}", "w = 'a{m2}b'"]),
                Meta::DisplayViaPrint => ("@display", "", vec!["print [mo]"]),
                Meta::DisplayViaDebug => ("@display", "", vec!["debug [mo]"]),
                Meta::Index => ("@index", "i", vec!["w = mo[0]"]),
                Meta::Call => ("@call", "", vec!["w = mo()"]),
                Meta::Size => ("@size", "", vec!["w = size mo"]),
                Meta::Next => ("@next", "", vec!["for v in mo", "  w = v", "  break"]),
                Meta::Iterator => ("@iterator", "", vec!["for v in mo", "  w = v", "  break"]),
                Meta::Negate => ("@negate", "", vec!["w = -mo"]),
            };
            defs.push("export mo =".into());
            defs.push(format!("  {key}: |{args}| f1()"));
            entry = e.into_iter().map(String::from).collect();
        }
        Placement::Native(n) => {
            f1(&mut defs);
            let e = match n {
                Native::Each => "w = (1..=3).each(|i| f1()).to_list()",
                Native::Keep => "w = (1..=3).keep(|i| f1()).to_list()",
                Native::Fold => "w = (1..=3).fold(0, |a, b| f1())",
                Native::Find => "w = (1..=3).find(|i| f1())",
                Native::Any => "w = (1..=3).any(|i| f1())",
                Native::SortKey => "w = [3, 1, 2].sort(|v| f1())",
                Native::Transform => "w = [1, 2].transform(|v| f1())",
                Native::Retain => "w = [1, 2].retain(|v| f1())",
                Native::MapUpdate => "w = {a: 1}.update('a', |v| f1())",
            };
            entry = vec![e.into()];
        }
        Placement::Gen(u) => {
            f1(&mut defs);
            defs.extend(def_fn("sg", "", &["f1()".to_string(), "yield 1".to_string()]));
            entry = match u {
                GenUse::For => vec!["for v in sg()".into(), "  w = v".into()],
                GenUse::Next => vec!["w = sg().next()".into()],
                GenUse::ToTuple => vec!["w = sg().to_tuple()".into()],
                GenUse::EachToList => vec!["w = sg().each(|v| v).to_list()".into()],
                GenUse::Adapted(k) => vec![
                    format!("for v in {}", GEN_ADAPTORS[k as usize % GEN_ADAPTORS.len()]),
                    "  w = v".into(),
                ],
            };
        }
        Placement::KotoRun => {
            f1(&mut defs);
            entry = vec!["w = koto.run('f1()')".into()];
        }
        Placement::Module(phase) => {
            let mut m = vec![];
            // the module cannot see the script's exports: it carries its own definitions
            m.extend(defs.clone());
            match phase {
                Phase::Top => m.extend(spin.clone()),
                Phase::Test => {
                    m.push("@test spin = ||".into());
                    m.extend(indent(&spin));
                }
                Phase::Main => {
                    m.push("@main = ||".into());
                    m.extend(indent(&spin));
                }
            }
            m.push("export ok = 1".into());
            modules.push(("spinmod.koto".to_string(), m.join("\n") + "\n"));
            entry = vec!["import spinmod".into()];
        }
        Placement::ScriptTest => {
            f1(&mut defs);
            if spec.limit_ns % 2 == 1 {
                // the set-up function of the test runner never returns, the clean-up function
                // would fail: the timeout must not be replaced by anything that runs afterwards
                trailer.push("@pre_test = ||".into());
                trailer.push("  f1()".into());
                trailer.push("@post_test = ||".into());
                trailer.push("  throw 'post'".into());
                trailer.push("@test t = ||".into());
                trailer.push("  1".into());
            } else {
                trailer.push("@test spin = ||".into());
                trailer.push("  f1()".into());
            }
            entry = vec!["w = 0".into()];
        }
        Placement::ScriptMain => {
            f1(&mut defs);
            trailer.push("@main = ||".into());
            trailer.push("  f1()".into());
            entry = vec!["w = 0".into()];
        }
    }

    // wrap in contexts, innermost first
    for (level, ctx) in spec.contexts.iter().enumerate().rev() {
        entry = match ctx {
            Ctx::Try => {
                let mut v = vec!["try".to_string()];
                v.extend(indent(&entry));
                v.push("catch e".into());
                v.push("  caught(e)".into());
                v
            }
            Ctx::TryFinally => {
                let mut v = vec!["try".to_string()];
                v.extend(indent(&entry));
                v.push("catch e".into());
                v.push("  caught(e)".into());
                v.push("finally".into());
                v.push("  mark(9)".into());
                v
            }
            Ctx::Retry(k) => {
                let r = format!("r{level}");
                let mut v = vec![format!("{r} = 0"), "loop".to_string()];
                v.push(format!("  {r} += 1"));
                v.push(format!("  if {r} > {k}"));
                v.push("    break".into());
                v.push("  try".into());
                v.extend(indent(&indent(&entry)));
                v.push("  catch e".into());
                v.push("    caught(e)".into());
                v
            }
            Ctx::Callee => {
                let name = format!("c{level}");
                defs.extend(def_fn(&name, "", &entry));
                vec![format!("{name}()")]
            }
            Ctx::GenBody => {
                let name = format!("g{level}");
                let mut body = entry.clone();
                body.push("yield 1".into());
                defs.extend(def_fn(&name, "", &body));
                vec![format!("for v in {name}()"), "  mark(1)".to_string()]
            }
            Ctx::InCatch => {
                let mut v = vec!["try".to_string(), "  throw 'first'".to_string(), "catch e0".to_string()];
                v.extend(indent(&entry));
                v
            }
            Ctx::InFinally => {
                let mut v = vec![
                    "try".to_string(),
                    "  mark(7)".to_string(),
                    "catch e0".to_string(),
                    "  mark(8)".to_string(),
                    "finally".to_string(),
                ];
                v.extend(indent(&entry));
                v
            }
            Ctx::NativeCb => {
                let name = format!("n{level}");
                defs.extend(def_fn(&name, "i", &entry));
                vec![format!("w{level} = (1..=2).each(|i| {name}(i)).to_list()")]
            }
        };
    }

    let mut lines = defs;
    lines.push("mark(100)".into());
    lines.extend(entry);
    lines.push("mark(200)".into());
    lines.extend(trailer);
    lines.push("'done'".into());
    let source = lines.join("\n") + "\n";

    let signature = format!(
        "{:?}/{:?}/{:?}/{}",
        spec.spin,
        spec.placement,
        spec.contexts,
        if spec.work.is_some() { "control" } else { "spin" }
    );

    Scenario {
        source,
        modules,
        terminating: spec.work.is_some(),
        limit_ns: spec.limit_ns,
        granularity: spec.granularity,
        profile: spec.profile.clone(),
        slow_ns: spec.slow_ns,
        run_tests: spec.run_tests,
        step_cap: step_cap_for(spec),
        signature,
    }
}

fn min_cost(p: &CostProfile) -> u64 {
    p.phases.iter().map(|(_, b, _)| *b).min().unwrap_or(1).max(1)
}

/// An a-priori bound (in virtual ns) on how long a correct implementation of the documented
/// algorithm can need for this scenario, computed from the scenario's own parameters with
/// the same formula as the per-entry oracle and worst-case values for what is measured there.
pub fn apriori_bound_ns(spec: &Spec) -> f64 {
    let l = spec.limit_ns as f64;
    let g = if spec.granularity <= 1 { 0.0 } else { spec.granularity as f64 };
    let p = &spec.profile;
    let slow = spec.slow_ns as f64;
    let hi = |ph: &(u64, u64, u64)| (ph.1 + ph.2) as f64 + slow;
    let lo = |ph: &(u64, u64, u64)| ph.1 as f64;
    let mut rho: f64 = 1.0;
    rho = rho.max(p.phases.iter().map(hi).fold(0.0, f64::max) / BASELINE_NS);
    for w in p.phases.windows(2) {
        rho = rho.max(hi(&w[1]) / lo(&w[0]));
    }
    for ph in &p.phases {
        rho = rho.max(hi(ph) / lo(ph));
    }
    let lumps: f64 = p.stalls.iter().map(|s| s.1 as f64).sum::<f64>()
        + p.jumps.iter().map(|s| s.1 as f64).sum::<f64>();
    let max_hi = p.phases.iter().map(hi).fold(0.0, f64::max);
    let per_entry = l + (0.4 * l + 2.0 * g) * 2.0 * rho + lumps + 8.0 * max_hi + 2.0 * g + 16.0;
    // startup and unwinding are a few hundred instructions; nested short entries of the
    // spin shapes (generator resumes) are accounted inside the spinning entry
    2.0 * per_entry + 2_000.0 * max_hi
}

const MAX_STEP_CAP: u64 = 5_000_000;

/// A step cap beyond anything a correct implementation needs (see `apriori_bound_ns`)
fn step_cap_for(spec: &Spec) -> u64 {
    (apriori_bound_ns(spec) / min_cost(&spec.profile) as f64) as u64 + 20_000
}

// ---------------------------------------------------------------------------------------------
// Generation

pub fn gen_spec(seed: u64) -> Spec {
    let mut k = Rng::fork(seed, "knobs");
    let mut s = Rng::fork(seed, "scenario");
    let mut c = Rng::fork(seed, "costs");

    let spin = *s.pick(SPINS);
    let placement = match s.below(16) {
        0..=1 => Placement::Inline,
        2..=3 => Placement::Func(s.range(1, 3) as u8),
        4 => Placement::Method,
        5..=7 => Placement::Meta(*s.pick(METAS)),
        8..=10 => Placement::Native(*s.pick(NATIVES)),
        11..=12 => Placement::Gen(*s.pick(GENUSES)),
        13 => Placement::KotoRun,
        14 => Placement::Module(*s.pick(&[Phase::Top, Phase::Test, Phase::Main])),
        _ => {
            if s.chance(1, 2) {
                Placement::ScriptTest
            } else {
                Placement::ScriptMain
            }
        }
    };
    let nctx = match placement {
        Placement::ScriptTest | Placement::ScriptMain => 0,
        _ => *s.pick_weighted(&[(3, 0usize), (4, 1), (3, 2), (2, 3)]),
    };
    let mut contexts = vec![];
    for _ in 0..nctx {
        contexts.push(match s.below(12) {
            0..=2 => Ctx::Try,
            3 => Ctx::TryFinally,
            4..=6 => Ctx::Retry(s.range(2, 8) as u8),
            7 => Ctx::Callee,
            8 => Ctx::GenBody,
            9 => Ctx::NativeCb,
            10 => Ctx::InCatch,
            _ => Ctx::InFinally,
        });
    }

    // limit: log-uniform over 100 ns .. 2 ms of virtual time
    let exp = k.range(0, 43); // 100 * 10^(exp/10): 100 ns .. ~2 ms
    let mut limit_ns = (100.0 * 10f64.powf(exp as f64 / 10.0)) as u64;

    // cost profile
    let base = *c.pick_weighted(&[
        (2, 2u64),
        (3, 5),
        (6, 10),
        (3, 20),
        (2, 50),
        (2, 200),
        (1, 1000),
    ]);
    // keep the run short: the limit should be reached within ~250k instructions at base cost
    limit_ns = limit_ns.min(base * 250_000);
    if matches!(spin, Spin::Rec | Spin::PingPong) {
        // unbounded recursion grows the (heap allocated) frame stack: keep it small
        limit_ns = limit_ns.min(base * 40_000);
    }
    let limit_ns = limit_ns.max(100);
    let horizon = (2 * limit_ns / base).max(8); // ordinals over which things are placed
    let mut profile = CostProfile {
        seed: c.next_u64(),
        phases: vec![(0, base, 0)],
        stalls: vec![],
        jumps: vec![],
    };
    match c.below(10) {
        0..=2 => {} // constant
        3..=4 => profile.phases[0].2 = c.range(1, base), // uniform band
        5..=7 => {
            // phases with ratio <= 8 between consecutive phases
            let n = c.range(1, 3);
            let mut cur = base;
            let mut at = 0u64;
            for _ in 0..n {
                at += c.range(1, horizon);
                let ratio = c.range(2, 8);
                cur = if c.chance(1, 2) {
                    (cur * ratio).min(20_000)
                } else {
                    (cur / ratio).max(1)
                };
                let band = if c.chance(1, 3) { c.range(0, cur) } else { 0 };
                profile.phases.push((at, cur, band));
            }
        }
        _ => {
            profile.phases[0].2 = if c.chance(1, 2) { c.range(0, base) } else { 0 };
        }
    }
    if c.chance(1, 5) {
        for _ in 0..c.range(1, 2) {
            profile
                .stalls
                .push((c.range(0, horizon), c.range(limit_ns / 20, limit_ns / 3).max(1)));
        }
        profile.stalls.sort();
    }
    if c.chance(1, 8) {
        profile
            .jumps
            .push((c.range(0, horizon), c.range(limit_ns / 10, 10 * limit_ns).max(1)));
    }

    let granularity = *k.pick_weighted(&[
        (6, 1u64),
        (2, 100),
        (2, 1000),
        (2, (limit_ns / 50).max(1)),
        (2, (limit_ns / 5).max(1)),
    ]);
    let slow_in_body = k.chance(1, 8);
    let slow_ns = if slow_in_body {
        k.range(base, (limit_ns / 20).max(base + 1))
    } else {
        0
    };

    // terminating control in a quarter of the runs
    let work = if k.chance(1, 4) {
        let per_iter = base.max(1) * 6;
        let frac = *k.pick_weighted(&[(6, 10u64), (6, 30), (3, 45), (2, 120), (2, 300)]);
        // the work is repeated by retry loops and multi-call natives: divide it up
        let mut mult = 1u64;
        for c in &contexts {
            match c {
                Ctx::Retry(k) => mult *= *k as u64,
                Ctx::NativeCb => mult *= 2,
                _ => {}
            }
        }
        if matches!(placement, Placement::Native(_)) {
            mult *= 3;
        }
        Some((limit_ns * frac / 100 / per_iter / mult).clamp(1, 60_000))
    } else {
        None
    };
    let run_tests = match placement {
        Placement::ScriptTest => true,
        _ => k.chance(1, 2),
    };
    let mut spec = Spec {
        spin,
        slow_in_body,
        placement,
        contexts,
        work,
        limit_ns,
        granularity,
        profile,
        slow_ns,
        run_tests,
    };
    // keep the scenario decidable within the step cap: drop the lumpiest ingredients first
    while step_cap_for(&spec) > MAX_STEP_CAP {
        if !spec.profile.jumps.is_empty() {
            spec.profile.jumps.clear();
        } else if !spec.profile.stalls.is_empty() {
            spec.profile.stalls.clear();
        } else if spec.profile.phases.len() > 1 {
            spec.profile.phases.pop();
        } else if spec.limit_ns > 200 {
            spec.limit_ns /= 2;
            spec.granularity = spec.granularity.min((spec.limit_ns / 5).max(1));
        } else {
            break;
        }
    }
    spec
}

// ---------------------------------------------------------------------------------------------
// Execution

#[derive(Clone, Debug, Default)]
pub struct RunResult {
    /// Ok(rendered value) / Err(full text)
    pub result: Option<Result<String, String>>,
    pub hit_step_cap: bool,
    pub panic: Option<String>,
    pub log: RunLog,
    pub stdout: String,
    pub end_time: u64,
    pub instructions: u64,
    pub entries: Vec<EntryRecord>,
    pub entries_total: u64,
    pub max_depth: usize,
    pub equal_reads: u64,
    pub stalls_fired: u64,
    pub jumps_fired: u64,
    pub phase_switches: u64,
    pub clock_reads: u64,
    /// result of the probe script run afterwards on the same instance
    pub probe: Option<Result<String, String>>,
    pub probe_duration: u64,
    /// VM instructions begun after the first timeout fired (a fired timeout ends the run: the
    /// error travels to the host without any further instruction)
    pub instructions_after_timeout: u64,
    /// the instance's exports map is no longer the one it had before the run
    pub exports_replaced: bool,
    /// (iterations, result) of the longer terminating probe
    pub long_probe: Option<(u64, Result<String, String>)>,
    pub long_probe_duration: u64,
}

pub struct Scratch {
    pub dir: std::path::PathBuf,
}

impl Scratch {
    pub fn new(tag: &str) -> Self {
        let dir = std::env::temp_dir().join(format!(
            "kotosim-{}-{}-{:?}",
            tag,
            std::process::id(),
            std::thread::current().id()
        ));
        let _ = std::fs::remove_dir_all(&dir);
        std::fs::create_dir_all(&dir).expect("scratch dir");
        Self { dir }
    }
    pub fn clear(&self) {
        if let Ok(rd) = std::fs::read_dir(&self.dir) {
            for e in rd.flatten() {
                let p = e.path();
                if p.is_dir() {
                    let _ = std::fs::remove_dir_all(p);
                } else {
                    let _ = std::fs::remove_file(p);
                }
            }
        }
    }
}

impl Drop for Scratch {
    fn drop(&mut self) {
        let _ = std::fs::remove_dir_all(&self.dir);
        // a symlink some engines create next to the directory
        let mut link = self.dir.clone().into_os_string();
        link.push("-link");
        let _ = std::fs::remove_file(std::path::PathBuf::from(link));
    }
}

pub const PROBE: &str = "f = |a, b| a + b\nx = [f(1, 2), f(3, 4)]\ny = try\n  throw 'p'\ncatch e\n  e\n'{x[0]}-{x[1]}-{y}'\n";
pub const PROBE_EXPECT: &str = "3-7-p";

/// Runs one scenario. `limited == false` runs the same script without a limit (reference run
/// for terminating controls).
pub fn execute(sc: &Scenario, limited: bool, clock: &Rc<VClock>, scratch: &Scratch) -> RunResult {
    let mut out = RunResult::default();
    let mut host = Host::new(HostSettings {
        run_tests: sc.run_tests,
        run_import_tests: true,
        execution_limit_ns: if limited { Some(sc.limit_ns) } else { None },
        builder_order_seed: sc.limit_ns ^ (sc.source.len() as u64) << 20 ^ sc.profile.seed,
    });
    host.log.lock().unwrap().slow_ns = sc.slow_ns;
    let exports_before = host.koto.exports().clone();

    let script_path = if sc.modules.is_empty() {
        None
    } else {
        scratch.clear();
        for (name, text) in &sc.modules {
            std::fs::write(scratch.dir.join(name), text).expect("write module");
        }
        let p = scratch.dir.join("main.koto");
        std::fs::write(&p, &sc.source).expect("write main");
        Some(p)
    };

    clock.record_entries.set(true);
    clock.keep_threshold.set(sc.limit_ns / 2);
    clock.limit.set(if limited { sc.limit_ns } else { u64::MAX });
    let cap = if limited { sc.step_cap } else { sc.step_cap.max(MAX_STEP_CAP) };
    clock.reset(sc.profile.clone(), sc.granularity, cap);

    let koto = &mut host.koto;
    let run = catch_unwind(AssertUnwindSafe(|| {
        let mut args = koto::CompileArgs::new(&sc.source);
        if let Some(p) = &script_path {
            args = args.script_path(p.to_string_lossy().to_string());
        }
        let r = koto.compile_and_run(args);
        host::render_result(koto, r)
    }));
    out.end_time = clock.now_true();
    out.instructions = clock.instructions();
    out.instructions_after_timeout = clock
        .fired_at_ordinal
        .get()
        .map(|o| clock.instructions().saturating_sub(o))
        .unwrap_or(0);
    match run {
        Ok(r) => out.result = Some(r),
        Err(payload) => {
            clock.abandon();
            if payload.downcast_ref::<StepCapExceeded>().is_some() {
                out.hit_step_cap = true;
            } else {
                out.panic = Some(host::take_last_panic().unwrap_or_else(|| "panic".into()));
            }
        }
    }
    out.entries = std::mem::take(&mut *clock.finished.borrow_mut());
    out.entries_total = clock.entries_total.get();
    out.max_depth = clock.max_depth.get();
    out.equal_reads = clock.equal_reads.get();
    out.stalls_fired = clock.stalls_fired.get();
    out.jumps_fired = clock.jumps_fired.get();
    out.phase_switches = clock.phase_switches.get();
    out.clock_reads = clock.total_clock_reads.get();
    out.log = host.take_log();
    out.stdout = host.stdout.take_output();

    // usable afterwards? (only meaningful when the run came back by itself)
    if limited && out.result.is_some() {
        clock.record_entries.set(false);
        // (virtual time goes on: the probes are later operations on the same instance)
        clock.reset_keep_time(CostProfile::constant(1), 1, 1_000_000, sc.limit_ns / 2);
        let probe_start = clock.now_true();
        // the exports map of the instance must still be the one it had before the run
        out.exports_replaced = !host.koto.exports().is_same_instance(&exports_before);
        if sc.source.contains("@main") || sc.source.contains("@test") {
            // the scenario's own exported @test / @main persist by design and would run again
            host.koto.exports_mut().clear();
        }
        let koto = &mut host.koto;
        let probe = catch_unwind(AssertUnwindSafe(|| {
            let r = koto.compile_and_run(PROBE);
            host::render_result(koto, r)
        }));
        out.probe_duration = clock.now_true() - probe_start;
        out.probe = Some(match probe {
            Ok(r) => r,
            Err(_) => {
                clock.abandon();
                Err(format!(
                    "PANIC in probe: {}",
                    host::take_last_panic().unwrap_or_default()
                ))
            }
        });
        // a second, longer probe: a terminating loop that lasts a few deadline-check intervals
        // of the limit (about 1/30 of it), so that state left behind in the deadline machinery
        // has a chance to act on it
        if matches!(out.probe, Some(Ok(_))) {
            let k = (sc.limit_ns / 160).clamp(10, 60_000);
            let text = format!("n = 0\nfor i in 0..{k}\n  n += 1\nn\n");
            clock.reset_keep_time(CostProfile::constant(1), 1, 2_000_000, sc.limit_ns / 2);
            let long_probe_start = clock.now_true();
            let koto = &mut host.koto;
            let probe = catch_unwind(AssertUnwindSafe(|| {
                let r = koto.compile_and_run(&text);
                host::render_result(koto, r)
            }));
            out.long_probe_duration = clock.now_true() - long_probe_start;
            out.long_probe = Some((
                k,
                match probe {
                    Ok(r) => r,
                    Err(_) => {
                        clock.abandon();
                        Err(format!(
                            "PANIC in probe: {}",
                            host::take_last_panic().unwrap_or_default()
                        ))
                    }
                },
            ));
        }
    }
    clock.record_entries.set(false);
    out
}

// ---------------------------------------------------------------------------------------------
// Oracle

#[derive(Clone, Debug, PartialEq)]
pub struct Violation {
    pub class: String,
    pub detail: String,
}

fn viol(class: &str, detail: String) -> Option<Violation> {
    Some(Violation {
        class: class.into(),
        detail,
    })
}

/// The release-build baseline of the first check interval: 10^8 instructions per second
const BASELINE_NS: f64 = 10.0;

/// Slack the documented algorithm may need for one entry, from what was recorded for it
pub fn entry_slack(e: &EntryRecord, limit: u64, g: u64) -> (u64, f64) {
    // Derivation (documented algorithm). At a check at time t_k (not yet timed out) the next
    // interval is sized n' = n * target / elapsed with target = min(L/10, deadline - reading).
    // Its true duration is n' * c' (+ its largest single charge), c' being the mean own cost of
    // its instructions, so it lasts about target * rho with rho = c' / (measured mean cost of the
    // previous interval; 10 ns - the release baseline - for the first one). Only the interval in
    // which the deadline passes matters: the check that ends it fires. Hence the last
    // instruction of an entry begins no later than
    //     deadline + f * (L/10) * rho_final + 2g * rho_final + m1 + 7 m2 + 2g
    // with f = 1 for an exact clock and 2 for a granular one (a non-zero reading of an elapsed
    // time is at least half the true time), the 2g*rho term for intervals whose two readings
    // were equal (interval left unchanged, shorter than g), m1/m2 the two largest single
    // charges (an interval of fewer than 8 instructions lasts at most m1 + 7 m2; a nested
    // entry is one charge of the entry that issued it and is checked on its own).
    let interval = limit as f64 / 10.0;
    let mut rho_final: f64 = 1.0;
    let mut prev_cost = BASELINE_NS;
    for iv in &e.intervals {
        let own = iv.dur.saturating_sub(iv.max_charge) as f64 / (iv.n.saturating_sub(1).max(1)) as f64;
        // the last interval of at least 8 instructions decides (shorter ones - at most one of
        // them straddles the deadline - are covered by m1 + 7 m2)
        if iv.n >= 8 && prev_cost > 0.0 {
            rho_final = (own / prev_cost).max(1.0);
        }
        if iv.n > 0 && iv.dur > 0 {
            prev_cost = iv.dur as f64 / iv.n as f64;
        }
    }
    let (g, f) = if g <= 1 { (0.0, 1.0) } else { (g as f64, 2.0) };
    let slack = (f * interval + 2.0 * g) * rho_final
        + e.max_charge as f64
        + 7.0 * e.second_charge as f64
        + 2.0 * g
        + 16.0;
    (slack.min(1e18) as u64, rho_final)
}

pub fn is_timeout_text(s: &str) -> bool {
    s.contains(TIMEOUT_TEXT)
}

/// Evaluates all oracle clauses; `reference` is the no-limit run for terminating controls
pub fn check(sc: &Scenario, r: &RunResult, reference: Option<&RunResult>) -> Option<Violation> {
    if let Some(p) = &r.panic {
        return viol("panic", p.clone());
    }
    // clause 4: no catch block observes the timeout
    if let Some((_, text)) = r.log.caught.iter().find(|(t, _)| *t) {
        return viol("timeout-caught", format!("catch block received: {text}"));
    }

    // clause 6: a timeout that fired is final - the error reaches the host without any further
    // VM instruction (no catch block, no retry by a native function, no re-armed re-entry)
    if r.instructions_after_timeout > 0 && r.panic.is_none() {
        return viol(
            "executed-after-timeout",
            format!(
                "{} VM instructions were executed after the first timeout had fired (run ended {})",
                r.instructions_after_timeout,
                match &r.result {
                    Some(Ok(v)) => format!("with Ok({v})"),
                    Some(Err(e)) => format!("with error: {}", host::first_line(e)),
                    None => "at the step cap".to_string(),
                }
            ),
        );
    }
    // clause 3 (per entry): no instruction begins after deadline + slack
    let mut worst: Option<(f64, String)> = None;
    for e in &r.entries {
        let (slack, rho) = entry_slack(e, sc.limit_ns, sc.granularity);
        let allowed = e.start + sc.limit_ns + slack;
        if e.instructions > 0 && e.last_instruction_start > allowed {
            let over = (e.last_instruction_start - e.start) as f64 / sc.limit_ns as f64;
            let d = format!(
                "entry depth {} started t={} began an instruction at t={} ({:.1} limits after its start); allowed {} (limit {} + slack {}, rho*={:.2}, max_charge={}, clock reads {}, instructions {})",
                e.depth, e.start, e.last_instruction_start, over, allowed - e.start, sc.limit_ns, slack, rho, e.max_charge, e.clock_reads, e.instructions
            );
            if worst.as_ref().is_none_or(|(w, _)| over > *w) {
                worst = Some((over, d));
            }
        }
    }
    if let Some((_, d)) = worst {
        return viol("deadline-overrun", d);
    }
    if r.hit_step_cap && r.entries.iter().any(|e| e.deadline_seen && !e.open) {
        // an entry's timeout fired, and yet the run carried on until the step cap: the timeout
        // was swallowed somewhere (possibly disguised as another error)
        return viol(
            "continued-after-timeout",
            format!(
                "{} entries observed their deadline but the run went on until the step cap of {}; caught values: {:?}",
                r.entries.iter().filter(|e| e.deadline_seen && !e.open).count(),
                sc.step_cap,
                r.log.caught.iter().map(|c| c.1.clone()).take(3).collect::<Vec<_>>()
            ),
        );
    }
    if r.hit_step_cap {
        // cannot happen for a correct implementation without tripping the per-entry clause
        return viol(
            "harness:step-cap-without-overrun",
            format!("step cap {} reached but no entry overran its bound", sc.step_cap),
        );
    }
    let result = r.result.as_ref().unwrap();

    if !sc.terminating {
        // clause 2: a script that cannot terminate returns the timeout error
        match result {
            Ok(v) => return viol("spin-returned-ok", format!("returned Ok({v})")),
            Err(e) if !is_timeout_text(e) => {
                return viol(
                    "spin-returned-other-error",
                    host::first_line(e),
                );
            }
            Err(_) => {}
        }
    } else {
        let reference = reference.expect("reference run");
        if reference.hit_step_cap || reference.panic.is_some() {
            return viol("harness:reference-run-failed", format!("{:?}", reference.panic));
        }
        let rr = reference.result.as_ref().unwrap();
        let same = rr == result && reference.log.markers == r.log.markers && reference.stdout == r.stdout;
        let g = if sc.granularity <= 1 { 0 } else { sc.granularity };
        if !same {
            let timed_out = matches!(result, Err(e) if is_timeout_text(e));
            if reference.end_time + g < sc.limit_ns {
                return viol(
                    "terminating-script-affected",
                    format!(
                        "without limit: {:?} after {} ns; with limit {} ns: {:?}",
                        rr.as_ref().map_err(|e| host::first_line(e)),
                        reference.end_time,
                        sc.limit_ns,
                        result.as_ref().map_err(|e| host::first_line(e))
                    ),
                );
            } else if !timed_out {
                return viol(
                    "long-script-neither-same-nor-timeout",
                    format!("{:?}", result.as_ref().map_err(|e| host::first_line(e))),
                );
            }
        }
    }

    // clause 5: usable afterwards
    if r.exports_replaced {
        return viol(
            "unusable-after-timeout",
            "the instance's exports map was replaced by another map (functions exported before the run can no longer be called)".into(),
        );
    }
    if let Some(p) = &r.probe {
        let ok = matches!(p, Ok(s) if s == PROBE_EXPECT);
        let g = if sc.granularity <= 1 { 0 } else { sc.granularity };
        let probe_may_time_out = r.probe_duration + g >= sc.limit_ns;
        let timed_out = matches!(p, Err(e) if is_timeout_text(e));
        if !ok && !(probe_may_time_out && timed_out) {
            return viol(
                "unusable-after-timeout",
                format!("probe gave {:?}", p.as_ref().map_err(|e| host::first_line(e))),
            );
        }
    }
    if let Some((k, p)) = &r.long_probe {
        let ok = matches!(p, Ok(s) if *s == k.to_string());
        let g = if sc.granularity <= 1 { 0 } else { sc.granularity };
        let probe_may_time_out = r.long_probe_duration + g >= sc.limit_ns;
        let timed_out = matches!(p, Err(e) if is_timeout_text(e));
        if !ok && !(probe_may_time_out && timed_out) {
            return viol(
                "unusable-after-timeout",
                format!(
                    "a terminating loop of {k} iterations ({} ns of a {} ns limit) run afterwards gave {:?}",
                    r.long_probe_duration,
                    sc.limit_ns,
                    p.as_ref().map_err(|e| host::first_line(e))
                ),
            );
        }
    }
    None
}

/// Behaviour-only digest of a run, used by the determinism proof
pub fn digest(r: &RunResult) -> u64 {
    let mut d = Digest::new();
    match &r.result {
        Some(Ok(v)) => {
            d.u64(1);
            d.str(v);
        }
        Some(Err(e)) => {
            d.u64(2);
            d.str(&host::first_line(e));
        }
        None => d.u64(3),
    }
    d.u64(r.hit_step_cap as u64);
    d.u64(r.panic.is_some() as u64);
    for m in &r.log.markers {
        d.u64(*m as u64);
    }
    for (t, s) in &r.log.caught {
        d.u64(*t as u64);
        d.str(s);
    }
    d.str(&r.stdout);
    d.u64(r.end_time);
    d.u64(r.instructions);
    d.u64(r.entries_total);
    d.u64(r.clock_reads);
    if let Some(p) = &r.probe {
        d.str(&format!("{:?}", p.as_ref().map_err(|e| host::first_line(e))));
    }
    d.0
}

// ---------------------------------------------------------------------------------------------
// JSON (replay files)

pub fn profile_to_json(p: &CostProfile) -> Value {
    json!({
        "seed": p.seed,
        "phases": p.phases.iter().map(|(a, b, c)| json!([a, b, c])).collect::<Vec<_>>(),
        "stalls": p.stalls.iter().map(|(a, b)| json!([a, b])).collect::<Vec<_>>(),
        "jumps": p.jumps.iter().map(|(a, b)| json!([a, b])).collect::<Vec<_>>(),
    })
}

fn u(v: &Value) -> u64 {
    v.as_u64().unwrap_or(0)
}

pub fn profile_from_json(v: &Value) -> CostProfile {
    let arr = |k: &str| v[k].as_array().cloned().unwrap_or_default();
    CostProfile {
        seed: u(&v["seed"]),
        phases: arr("phases").iter().map(|x| (u(&x[0]), u(&x[1]), u(&x[2]))).collect(),
        stalls: arr("stalls").iter().map(|x| (u(&x[0]), u(&x[1]))).collect(),
        jumps: arr("jumps").iter().map(|x| (u(&x[0]), u(&x[1]))).collect(),
    }
}

pub fn scenario_to_json(sc: &Scenario) -> Value {
    json!({
        "source": sc.source,
        "modules": sc.modules.iter().map(|(n, t)| json!([n, t])).collect::<Vec<_>>(),
        "terminating": sc.terminating,
        "limit_ns": sc.limit_ns,
        "granularity": sc.granularity,
        "profile": profile_to_json(&sc.profile),
        "slow_ns": sc.slow_ns,
        "run_tests": sc.run_tests,
        "step_cap": sc.step_cap,
        "signature": sc.signature,
    })
}

pub fn scenario_from_json(v: &Value) -> Scenario {
    Scenario {
        source: v["source"].as_str().unwrap_or("").to_string(),
        modules: v["modules"]
            .as_array()
            .cloned()
            .unwrap_or_default()
            .iter()
            .map(|x| {
                (
                    x[0].as_str().unwrap_or("").to_string(),
                    x[1].as_str().unwrap_or("").to_string(),
                )
            })
            .collect(),
        terminating: v["terminating"].as_bool().unwrap_or(false),
        limit_ns: u(&v["limit_ns"]),
        granularity: u(&v["granularity"]).max(1),
        profile: profile_from_json(&v["profile"]),
        slow_ns: u(&v["slow_ns"]),
        run_tests: v["run_tests"].as_bool().unwrap_or(true),
        step_cap: u(&v["step_cap"]),
        signature: v["signature"].as_str().unwrap_or("").to_string(),
    }
}

// ---------------------------------------------------------------------------------------------
// One complete evaluation of a scenario (reference run included when needed)

pub struct Eval {
    pub run: RunResult,
    pub violation: Option<Violation>,
    pub digest: u64,
}

pub fn evaluate(sc: &Scenario, clock: &Rc<VClock>, scratch: &Scratch) -> Eval {
    let reference = if sc.terminating {
        Some(execute(sc, false, clock, scratch))
    } else {
        None
    };
    // a terminating control executes at most the instruction sequence of its no-limit run
    let mut sc_limited;
    let sc = if let Some(r) = &reference {
        sc_limited = sc.clone();
        sc_limited.step_cap = sc.step_cap.max(r.instructions + 10_000);
        &sc_limited
    } else {
        sc
    };
    let run = execute(sc, true, clock, scratch);
    let violation = check(sc, &run, reference.as_ref());
    let mut dg = digest(&run);
    if let Some(r) = &reference {
        dg = crate::rng::mix(dg, digest(r));
    }
    Eval {
        run,
        violation,
        digest: dg,
    }
}

// ---------------------------------------------------------------------------------------------
// Minimisation: simplify the spec while the same violation class persists

pub fn shrink(spec: &Spec, class: &str, clock: &Rc<VClock>, scratch: &Scratch) -> (Spec, usize) {
    let mut best = spec.clone();
    let mut steps = 0usize;
    let still = |s: &Spec| -> bool {
        let sc = render(s);
        let ev = evaluate(&sc, clock, scratch);
        ev.violation.as_ref().is_some_and(|v| v.class == class)
    };
    loop {
        let mut progressed = false;
        let mut candidates: Vec<Spec> = vec![];
        // drop contexts one at a time
        for i in 0..best.contexts.len() {
            let mut c = best.clone();
            c.contexts.remove(i);
            candidates.push(c);
        }
        // weaker contexts
        for i in 0..best.contexts.len() {
            match best.contexts[i] {
                Ctx::Retry(k) if k > 2 => {
                    let mut c = best.clone();
                    c.contexts[i] = Ctx::Retry(2);
                    candidates.push(c);
                }
                Ctx::Retry(_) | Ctx::TryFinally => {
                    let mut c = best.clone();
                    c.contexts[i] = Ctx::Try;
                    candidates.push(c);
                }
                _ => {}
            }
        }
        // simpler placement / spin
        if best.placement != Placement::Inline {
            let mut c = best.clone();
            c.placement = Placement::Inline;
            candidates.push(c);
            if !matches!(best.placement, Placement::Func(1)) {
                let mut c = best.clone();
                c.placement = Placement::Func(1);
                candidates.push(c);
            }
        }
        if best.spin != Spin::Loop {
            let mut c = best.clone();
            c.spin = Spin::Loop;
            candidates.push(c);
        }
        if best.slow_in_body {
            let mut c = best.clone();
            c.slow_in_body = false;
            c.slow_ns = 0;
            candidates.push(c);
        }
        // simpler clock and cost behaviour
        if !best.profile.jumps.is_empty() {
            let mut c = best.clone();
            c.profile.jumps.clear();
            candidates.push(c);
        }
        if !best.profile.stalls.is_empty() {
            let mut c = best.clone();
            c.profile.stalls.clear();
            candidates.push(c);
        }
        if best.profile.phases.len() > 1 {
            let mut c = best.clone();
            c.profile.phases.truncate(1);
            candidates.push(c);
            let mut c = best.clone();
            c.profile.phases.pop();
            candidates.push(c);
        }
        if best.profile.phases.iter().any(|p| p.2 != 0) {
            let mut c = best.clone();
            for p in c.profile.phases.iter_mut() {
                p.2 = 0;
            }
            candidates.push(c);
        }
        if best.profile.phases[0].1 != 10 {
            let mut c = best.clone();
            c.profile.phases[0].1 = 10;
            candidates.push(c);
        }
        if best.granularity != 1 {
            let mut c = best.clone();
            c.granularity = 1;
            candidates.push(c);
        }
        if best.run_tests && best.placement != Placement::ScriptTest {
            let mut c = best.clone();
            c.run_tests = false;
            candidates.push(c);
        }
        // rounder / smaller limit
        for l in [1_000u64, 10_000, 100_000] {
            if best.limit_ns > l {
                let mut c = best.clone();
                c.limit_ns = l;
                candidates.push(c);
            }
        }
        for cand in candidates {
            steps += 1;
            if still(&cand) {
                best = cand;
                progressed = true;
                break;
            }
            if steps > 400 {
                break;
            }
        }
        if !progressed || steps > 400 {
            break;
        }
    }
    (best, steps)
}

pub fn spec_summary(s: &Spec) -> Value {
    json!({
        "spin": format!("{:?}", s.spin),
        "placement": format!("{:?}", s.placement),
        "contexts": s.contexts.iter().map(|c| format!("{c:?}")).collect::<Vec<_>>(),
        "control_work": s.work,
        "limit_ns": s.limit_ns,
        "granularity": s.granularity,
        "slow_in_body": s.slow_in_body,
        "run_tests": s.run_tests,
    })
}

/// Signature for `distinct_nontrivial`
pub fn signature(spec: &Spec, r: &RunResult) -> u64 {
    let mut d = Digest::new();
    d.str(&format!("{:?}{:?}{:?}", spec.spin, spec.placement, spec.contexts));
    d.u64(spec.work.is_some() as u64);
    d.u64(r.max_depth as u64);
    // regime of the first interval
    let n1 = spec.limit_ns / 100;
    d.u64(match n1 {
        0..=1 => 0,
        2..=100 => 1,
        101..=10_000 => 2,
        _ => 3,
    });
    d.u64(match spec.granularity {
        1 => 0,
        g if g * 10 < spec.limit_ns => 1,
        _ => 2,
    });
    d.u64((spec.profile.phases.len() > 1) as u64);
    d.u64((!spec.profile.stalls.is_empty()) as u64);
    d.u64((!spec.profile.jumps.is_empty()) as u64);
    // which entry fired: depth of the entry whose last clock read closed the run
    let firing = r
        .entries
        .iter()
        .filter(|e| e.clock_reads > 1)
        .map(|e| e.depth)
        .max()
        .unwrap_or(0);
    d.u64(firing as u64);
    d.0
}

// ---------------------------------------------------------------------------------------------
// Campaign worker

use crate::campaign::{RunReport, ViolationReport, Worker};
use crate::known::KnownFindings;
use std::collections::BTreeSet;

pub fn features(spec: &Spec) -> BTreeSet<String> {
    let mut f = BTreeSet::new();
    f.insert(format!("spin:{:?}", spec.spin));
    let p = match spec.placement {
        Placement::Inline => "Inline".to_string(),
        Placement::Func(_) => "Func".to_string(),
        Placement::Method => "Method".to_string(),
        Placement::Meta(m) => format!("Meta:{m:?}"),
        Placement::Native(n) => format!("Native:{n:?}"),
        Placement::Gen(u) => format!("Gen:{u:?}"),
        Placement::KotoRun => "KotoRun".to_string(),
        Placement::Module(ph) => format!("Module:{ph:?}"),
        Placement::ScriptTest => "ScriptTest".to_string(),
        Placement::ScriptMain => "ScriptMain".to_string(),
    };
    f.insert(format!("placement:{p}"));
    for c in &spec.contexts {
        let c = match c {
            Ctx::Retry(_) => "Retry".to_string(),
            other => format!("{other:?}"),
        };
        f.insert(format!("ctx:{c}"));
    }
    if spec.contexts.is_empty() {
        f.insert("ctx:none".into());
    }
    if spec.granularity > 1 {
        f.insert("clock:granular".into());
    }
    if spec.granularity * 10 >= spec.limit_ns {
        f.insert("clock:coarse".into());
    }
    if spec.work.is_some() {
        f.insert("control".into());
    }
    f
}

pub struct ClockWorker {
    clock: Rc<VClock>,
    scratch: Scratch,
    known: KnownFindings,
}

impl ClockWorker {
    pub fn new(known: KnownFindings) -> Self {
        Self {
            clock: host::install_clock(),
            scratch: Scratch::new("clock"),
            known,
        }
    }
}

fn run_counters(spec: &Spec, r: &RunResult) -> Vec<(&'static str, u64)> {
    let mut c: Vec<(&'static str, u64)> = vec![
        ("fault.stall.configured", spec.profile.stalls.len() as u64),
        ("fault.stall.fired", r.stalls_fired),
        ("fault.clock_jump.configured", spec.profile.jumps.len() as u64),
        ("fault.clock_jump.fired", r.jumps_fired),
        ("fault.cost_phase_switch.configured", spec.profile.phases.len() as u64 - 1),
        ("fault.cost_phase_switch.fired", r.phase_switches),
        ("fault.granular_clock.configured", (spec.granularity > 1) as u64),
        ("fault.granular_clock.equal_consecutive_readings", r.equal_reads),
        ("fault.slow_host_call.fired", r.log.slow_calls),
        ("clock_reads", r.clock_reads),
        ("vm_entries", r.entries_total),
        ("probe.timeout_fired", matches!(&r.result, Some(Err(e)) if is_timeout_text(e)) as u64),
        ("probe.nested_entry_fired", r.entries.iter().any(|e| e.depth > 1 && e.clock_reads > 1) as u64),
        ("probe.control_finished_under_limit", (spec.work.is_some() && matches!(&r.result, Some(Ok(_)))) as u64),
        ("probe.catch_block_ran", (!r.log.caught.is_empty()) as u64),
        ("probe.depth_ge_3", (r.max_depth >= 3) as u64),
    ];
    c.retain(|(_, v)| *v > 0);
    c
}

impl Worker for ClockWorker {
    fn run(&mut self, run_seed: u64, _index: u64) -> RunReport {
        let spec = gen_spec(run_seed);
        let sc = render(&spec);
        let ev = evaluate(&sc, &self.clock, &self.scratch);
        let mut rep = RunReport {
            digest: ev.digest,
            executions: if sc.terminating { 2 } else { 1 },
            sim_units: ev.run.end_time,
            counters: run_counters(&spec, &ev.run),
            ..Default::default()
        };
        // non-trivial: the limit mechanism actually did something (a deadline check happened)
        if ev.run.clock_reads > ev.run.entries_total || spec.work.is_some() {
            rep.signature = Some(signature(&spec, &ev.run));
        }
        if _index < 3 {
            rep.sample = Some(json!({
                "run_seed": run_seed,
                "spec": spec_summary(&spec),
                "source": sc.source,
                "result": result_json(&ev.run.result),
                "virtual_ns": ev.run.end_time,
                "instructions": ev.run.instructions,
                "vm_entries": ev.run.entries_total,
            }));
        }
        if let Some(v) = ev.violation {
            if v.class.starts_with("harness:") {
                rep.harness_error = Some(format!("{}: {} [{}]", v.class, v.detail, sc.signature));
                return rep;
            }
            let (min_spec, steps) = shrink(&spec, &v.class, &self.clock, &self.scratch);
            let min_sc = render(&min_spec);
            // replay the minimised scenario once more: it must reproduce the class and digest
            let e1 = evaluate(&min_sc, &self.clock, &self.scratch);
            let e2 = evaluate(&min_sc, &self.clock, &self.scratch);
            let Some(v1) = e1.violation.clone() else {
                rep.harness_error = Some(format!("minimised scenario lost the violation {}", v.class));
                return rep;
            };
            if e2.violation.as_ref() != Some(&v1) || e1.digest != e2.digest {
                rep.harness_error = Some(format!("violation {} does not replay deterministically", v.class));
                return rep;
            }
            let known = self.known.matches("clocksim", &v1.class, &features(&min_spec));
            rep.violations.push(ViolationReport {
                class: v1.class.clone(),
                detail: v1.detail.clone(),
                scenario: scenario_to_json(&min_sc),
                extra: json!({
                    "spec": spec_summary(&min_spec),
                    "features": features(&min_spec),
                    "original_spec": spec_summary(&spec),
                    "original_violation": { "class": v.class, "detail": v.detail },
                    "shrink_steps": steps,
                    "digest": format!("{:016x}", e1.digest),
                    "markers": e1.run.log.markers,
                    "caught": e1.run.log.caught.iter().map(|(t, s)| json!([t, s])).collect::<Vec<_>>(),
                    "result": result_json(&e1.run.result),
                    "virtual_ns": e1.run.end_time,
                    "instructions": e1.run.instructions,
                }),
                known,
            });
        }
        rep
    }
}

pub fn result_json(r: &Option<Result<String, String>>) -> Value {
    match r {
        Some(Ok(v)) => json!({ "ok": v }),
        Some(Err(e)) => json!({ "err": host::first_line(e) }),
        None => json!("did not return"),
    }
}

/// Replays the scenario stored in a replay file; returns (violation, digest)
pub fn replay(doc: &Value) -> (Option<Violation>, u64) {
    let sc = scenario_from_json(&doc["scenario"]);
    let clock = host::install_clock();
    let scratch = Scratch::new("replay");
    let ev = evaluate(&sc, &clock, &scratch);
    (ev.violation, ev.digest)
}

/// Debug helper: run one seed and print everything
pub fn show(run_seed: u64) {
    let spec = gen_spec(run_seed);
    let sc = render(&spec);
    println!("spec: {}", spec_summary(&spec));
    println!("profile: {}", profile_to_json(&spec.profile));
    println!("step_cap: {}", sc.step_cap);
    println!("--- source\n{}---", sc.source);
    for (n, t) in &sc.modules {
        println!("--- module {n}\n{t}---");
    }
    let clock = host::install_clock();
    let scratch = Scratch::new("show");
    let ev = evaluate(&sc, &clock, &scratch);
    println!("result: {}", result_json(&ev.run.result));
    println!("full result: {:?}", ev.run.result);
    println!("cap={} panic={:?}", ev.run.hit_step_cap, ev.run.panic);
    println!("markers={:?} caught={:?}", ev.run.log.markers, ev.run.log.caught);
    println!("end_time={} instructions={} entries={} max_depth={} clock_reads={} equal_reads={}",
        ev.run.end_time, ev.run.instructions, ev.run.entries_total, ev.run.max_depth, ev.run.clock_reads, ev.run.equal_reads);
    for e in ev.run.entries.iter().take(12) {
        let (slack, rho) = entry_slack(e, sc.limit_ns, sc.granularity);
        println!("  entry depth={} start={} end={} instr={} last_start={} max_charge={} reads={} open={} slack={} rho={:.2} intervals={:?}",
            e.depth, e.start, e.end, e.instructions, e.last_instruction_start, e.max_charge, e.clock_reads, e.open, slack, rho,
            e.intervals.iter().take(6).map(|i| (i.n, i.dur, i.max_charge)).collect::<Vec<_>>());
    }
    println!("probe: {:?} ({} ns)", ev.run.probe, ev.run.probe_duration);
    println!("violation: {:?}", ev.violation);
}
