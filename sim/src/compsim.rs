//! compsim — C05, determinism clause: "Compilation is a function of the source text and settings:
//! compiling the same text again yields the same code."
//!
//! The one source of nondeterminism in koto's compilation pipeline is the randomness that keys
//! its hash sets and maps (`RandomState`: different in every process and in every instance).
//! Hook H4 puts it behind a seam: with `--cfg koto_verif` those collections are keyed by
//! `koto_parser::verif::SimHashState`, whose keys come from a seed the simulator sets. One run =
//! one program text compiled under several simulator-chosen hash seeds ("the randomness the
//! process happened to get"); every compilation must produce the same chunk (bytes, constants,
//! source map) or the same error. A difference is replayable exactly: text + settings + the two
//! hash seeds.

use crate::campaign::{RunReport, ViolationReport, Worker};
use crate::rng::{Digest, Rng, hash_str, mix};
use crate::simlang::{self, GenKnobs, PrintOpts};
use koto::bytecode::{Chunk, Compiler, CompilerSettings};
use koto::parser::{Node, Parser, verif::set_hash_seed};
use serde_json::{Value, json};
use std::sync::Arc;

pub const CLASS: &str = "compile-nondeterministic";

#[derive(Clone, PartialEq)]
pub enum Outcome {
    Ok(Chunk),
    Err(String),
}

impl Outcome {
    fn summary(&self) -> String {
        match self {
            Outcome::Ok(c) => format!("ok: {} bytes", c.bytes.len()),
            Outcome::Err(e) => format!("error: {}", e.lines().next().unwrap_or("")),
        }
    }
}

pub fn compile_under(src: &str, export_top_level_ids: bool, enable_type_checks: bool, hash_seed: u64) -> Outcome {
    set_hash_seed(hash_seed);
    let settings = CompilerSettings {
        export_top_level_ids,
        enable_type_checks,
    };
    let r = std::panic::catch_unwind(|| Compiler::compile(src, None, settings));
    match r {
        Ok(Ok(c)) => Outcome::Ok(c),
        Ok(Err(e)) => Outcome::Err(e.to_string()),
        Err(_) => Outcome::Err("panic while compiling".into()),
    }
}

fn describe_difference(a: &Outcome, b: &Outcome) -> String {
    match (a, b) {
        (Outcome::Ok(x), Outcome::Ok(y)) => {
            let mut parts = vec![];
            if x.bytes != y.bytes {
                let i = x
                    .bytes
                    .iter()
                    .zip(y.bytes.iter())
                    .position(|(p, q)| p != q)
                    .unwrap_or(x.bytes.len().min(y.bytes.len()));
                parts.push(format!(
                    "bytecode differs from offset {i} (lengths {} and {}; bytes {:?} vs {:?})",
                    x.bytes.len(),
                    y.bytes.len(),
                    x.bytes.get(i),
                    y.bytes.get(i)
                ));
            }
            if x.constants != y.constants {
                parts.push("constant pools differ".into());
            }
            if x.debug_info != y.debug_info {
                parts.push("source maps differ".into());
            }
            parts.join("; ")
        }
        _ => format!("one compilation gave `{}`, the other `{}`", a.summary(), b.summary()),
    }
}

/// The seam must be alive: two different hash seeds have to be able to produce two different
/// iteration orders, otherwise this engine decides nothing (exit 2).
pub fn seam_alive() -> bool {
    let order = |seed: u64| -> Vec<u32> {
        set_hash_seed(seed);
        let mut s = koto::parser::verif::HashSet::<u32>::default();
        for i in 0..24 {
            s.insert(i);
        }
        s.into_iter().collect()
    };
    let first = order(1);
    (2..10).any(|s| order(s) != first) && order(1) == first
}

// ---------------------------------------------------------------------------------------------
// corpus: every koto program text in the repository

#[derive(Clone)]
pub struct CorpusItem {
    pub origin: String,
    pub text: String,
}

pub fn repo_dir() -> String {
    std::env::var("KOTOSIM_REPO").unwrap_or_else(|_| "/repo".into())
}

pub fn load_corpus() -> Vec<CorpusItem> {
    fn walk(dir: &std::path::Path, out: &mut Vec<std::path::PathBuf>) {
        let Ok(rd) = std::fs::read_dir(dir) else { return };
        let mut entries: Vec<_> = rd.flatten().map(|e| e.path()).collect();
        entries.sort();
        for p in entries {
            let name = p.file_name().and_then(|n| n.to_str()).unwrap_or("");
            if p.is_dir() {
                if name == "target" || name.starts_with('.') {
                    continue;
                }
                walk(&p, out);
            } else if name.ends_with(".koto") || name.ends_with(".md") {
                out.push(p);
            }
        }
    }
    let root = repo_dir();
    let mut files = vec![];
    walk(std::path::Path::new(&root), &mut files);
    let mut items = vec![];
    for f in files {
        let Ok(text) = std::fs::read_to_string(&f) else { continue };
        let rel = f.to_string_lossy().replacen(&root, "", 1);
        if rel.ends_with(".koto") {
            items.push(CorpusItem { origin: rel, text });
        } else {
            // fenced ```koto blocks; the documentation's `print!` / `check!` markers are removed
            let mut block: Option<Vec<String>> = None;
            let mut n = 0;
            for line in text.lines() {
                if let Some(b) = block.as_mut() {
                    if line.trim_start().starts_with("```") {
                        n += 1;
                        items.push(CorpusItem {
                            origin: format!("{rel}#{n}"),
                            text: b.join("\n") + "\n",
                        });
                        block = None;
                    } else if line.trim_start().starts_with("check!") {
                    } else {
                        b.push(line.replacen("print! ", "print ", 1));
                    }
                } else if line.trim() == "```koto" {
                    block = Some(vec![]);
                }
            }
        }
    }
    items
}

/// The program as the body of a function: its top-level locals become function locals and what
/// its own functions read from them becomes a capture
fn wrap_in_function(text: &str) -> String {
    let mut out = String::from("zz_wrapped = ||\n");
    for l in text.lines() {
        if l.trim().is_empty() {
            out.push('\n');
        } else {
            out.push_str("  ");
            out.push_str(l);
            out.push('\n');
        }
    }
    out.push_str("zz_wrapped()\n");
    out
}

// ---------------------------------------------------------------------------------------------
// generator: nests of functions with free variables, locals, exports, constants

struct CapGen<'a> {
    r: &'a mut Rng,
    out: Vec<String>,
    n: usize,
    budget: i32,
}

fn ind(n: usize) -> String {
    "  ".repeat(n)
}

impl CapGen<'_> {
    fn fresh(&mut self, prefix: &str) -> String {
        self.n += 1;
        format!("{prefix}{}", self.n)
    }

    fn name(&mut self, scope: &[String]) -> String {
        if scope.is_empty() {
            "0".into()
        } else {
            self.r.pick(scope).clone()
        }
    }

    fn simple(&mut self, scope: &[String]) -> String {
        match self.r.below(4) {
            0 => self.r.below(50).to_string(),
            _ => self.name(scope),
        }
    }

    fn expr(&mut self, scope: &[String], depth: u32) -> String {
        let top = if depth == 0 { 4 } else { 17 };
        match self.r.below(top) {
            0 => self.r.below(1000).to_string(),
            1 => format!("{}.5", self.r.below(40)),
            2 => match self.r.below(8) {
                // literals with escape sequences (processed by the parser); rarely one that the
                // parser rejects after some valid characters
                0 => format!("'t{}\\tab\\n'", self.r.below(30)),
                1 => format!("\"q{}\\\"x\\\\y\"", self.r.below(30)),
                2 => format!("'u\\x41\\u{{1F600}}{}'", self.r.below(30)),
                3 if self.r.chance(1, 6) => format!("'it costs \\$ {}'", self.r.below(30)),
                _ => format!("'s{}'", self.r.below(30)),
            },
            3 => self.name(scope),
            4 | 5 => {
                let op = *self.r.pick(&["+", "-", "*", "%"]);
                format!("({} {op} {})", self.expr(scope, depth - 1), self.expr(scope, depth - 1))
            }
            6 => format!("[{}, {}]", self.expr(scope, depth - 1), self.expr(scope, depth - 1)),
            7 => format!("({}, {})", self.expr(scope, depth - 1), self.simple(scope)),
            8 => {
                let a = self.name(scope);
                let b = self.simple(scope);
                let c = self.simple(scope);
                format!("'x{{{a}}} y{{{b} + {c}}}'")
            }
            9 | 10 => {
                // an inline function whose free variables are captures
                let q = self.fresh("q");
                let mut inner: Vec<String> = scope.to_vec();
                inner.push(q.clone());
                let k = self.r.range(1, 4);
                let mut body = q.clone();
                for _ in 0..k {
                    let nm = self.name(&inner);
                    body = format!("{body} + {nm}");
                }
                if self.r.chance(1, 2) {
                    format!("(|{q}| {body})({})", self.simple(scope))
                } else {
                    format!("(|{q}| {body})")
                }
            }
            11 => format!(
                "(if {} > 0 then {} else {})",
                self.simple(scope),
                self.expr(scope, depth - 1),
                self.expr(scope, depth - 1)
            ),
            12 => {
                let k1 = self.fresh("k");
                let k2 = self.fresh("k");
                format!("{{{k1}: {}, {k2}: {}}}", self.expr(scope, depth - 1), self.simple(scope))
            }
            13 => format!("({} < {})", self.simple(scope), self.expr(scope, depth - 1)),
            14 => format!("(0..{})", self.simple(scope)),
            15 if !scope.is_empty() => format!("{}.foo", self.name(scope)),
            16 if !scope.is_empty() => format!("{}[{}]", self.name(scope), self.r.below(3)),
            _ => self.r.below(9).to_string(),
        }
    }

    fn line(&mut self, indent: usize, text: &str) {
        self.out.push(format!("{}{}", ind(indent), text));
    }

    fn function(&mut self, indent: usize, scope: &[String], fdepth: u32, head: &str) {
        let mut inner: Vec<String> = scope.to_vec();
        let mut params = vec![];
        let np = self.r.below(4);
        let mut defaults = false;
        for i in 0..np {
            let p = self.fresh("p");
            if defaults || (i > 0 && self.r.chance(1, 3)) {
                defaults = true;
                // default values may refer to anything visible at the definition
                params.push(format!("{p} = {}", self.expr(scope, 1)));
            } else if self.r.chance(1, 8) {
                params.push(format!("{p}: Number"));
            } else {
                params.push(p.clone());
            }
            inner.push(p);
        }
        if !defaults && self.r.chance(1, 6) {
            let p = self.fresh("rest");
            params.push(format!("{p}..."));
            inner.push(p);
        }
        self.line(indent, &format!("{head}|{}|", params.join(", ")));
        let generator = self.r.chance(1, 5);
        self.block(indent + 1, &mut inner, fdepth + 1, false, generator);
        let tail = self.expr(&inner, 2);
        if generator {
            self.line(indent + 1, &format!("yield {tail}"));
        } else {
            self.line(indent + 1, &tail);
        }
    }

    fn block(&mut self, indent: usize, scope: &mut Vec<String>, fdepth: u32, in_loop: bool, in_gen: bool) {
        let n = self.r.range(1, if indent == 0 { 9 } else { 4 });
        for i in 0..n {
            if self.budget <= 0 {
                if i == 0 {
                    // a block is never empty
                    let v = self.fresh("v");
                    self.line(indent, &format!("{v} = 0"));
                    scope.push(v);
                }
                break;
            }
            self.budget -= 1;
            match self.r.below(22) {
                0..=3 => {
                    let v = self.fresh(if indent == 0 { "a" } else { "v" });
                    let e = self.expr(scope, 2);
                    if self.r.chance(1, 8) {
                        self.line(indent, &format!("let {v}: Any = {e}"));
                    } else {
                        self.line(indent, &format!("{v} = {e}"));
                    }
                    scope.push(v);
                }
                4 if !scope.is_empty() => {
                    let v = self.name(scope);
                    let e = self.expr(scope, 2);
                    let op = *self.r.pick(&["=", "+=", "-="]);
                    self.line(indent, &format!("{v} {op} {e}"));
                }
                5 => {
                    let v1 = self.fresh("v");
                    let v2 = self.fresh("v");
                    let e1 = self.expr(scope, 1);
                    let e2 = self.expr(scope, 1);
                    self.line(indent, &format!("{v1}, {v2} = {e1}, {e2}"));
                    scope.push(v1);
                    scope.push(v2);
                }
                6..=9 if fdepth < 3 => {
                    let f = self.fresh("f");
                    let head = if indent == 0 && self.r.chance(1, 4) {
                        format!("export {f} = ")
                    } else {
                        format!("{f} = ")
                    };
                    self.function(indent, scope, fdepth, &head);
                    scope.push(f);
                }
                10 => {
                    let x = self.fresh("x");
                    let e = self.simple(scope);
                    self.line(indent, &format!("for {x} in 0..{e}"));
                    let mut inner = scope.clone();
                    inner.push(x.clone());
                    self.block(indent + 1, &mut inner, fdepth, true, in_gen);
                    *scope = inner;
                }
                11 => {
                    let e = self.simple(scope);
                    self.line(indent, &format!("while {e} < 3"));
                    self.block(indent + 1, scope, fdepth, true, in_gen);
                    self.line(indent + 1, "break");
                }
                12 => {
                    let e = self.expr(scope, 1);
                    self.line(indent, &format!("if {e} > 0"));
                    self.block(indent + 1, scope, fdepth, in_loop, in_gen);
                    if self.r.chance(1, 2) {
                        self.line(indent, "else");
                        self.block(indent + 1, scope, fdepth, in_loop, in_gen);
                    }
                }
                13 => {
                    let v = self.fresh("v");
                    let e = self.expr(scope, 1);
                    let m1 = self.fresh("m");
                    let m2 = self.fresh("m");
                    let m3 = self.fresh("m");
                    self.line(indent, &format!("{v} = match {e}"));
                    let z = self.simple(scope);
                    self.line(indent + 1, &format!("0 then {z}"));
                    let a = self.simple(scope);
                    self.line(indent + 1, &format!("{m1} if {m1} > {a} then {m1}"));
                    let b = self.simple(scope);
                    self.line(indent + 1, &format!("({m2}, {m3}) then {m2} + {m3} + {b}"));
                    let z = self.simple(scope);
                    self.line(indent + 1, &format!("else {z}"));
                    scope.push(v);
                }
                14 => {
                    self.line(indent, "try");
                    self.block(indent + 1, scope, fdepth, in_loop, in_gen);
                    let e = self.fresh("e");
                    self.line(indent, &format!("catch {e}"));
                    let mut inner = scope.clone();
                    inner.push(e);
                    self.block(indent + 1, &mut inner, fdepth, in_loop, in_gen);
                    *scope = inner;
                    if self.r.chance(1, 3) {
                        self.line(indent, "finally");
                        self.block(indent + 1, scope, fdepth, false, in_gen);
                    }
                }
                15 => {
                    let m = self.fresh("mm");
                    self.line(indent, &format!("{m} ="));
                    let k = self.r.range(1, 3);
                    for _ in 0..k {
                        let key = self.fresh("k");
                        if self.r.chance(1, 2) && fdepth < 3 {
                            self.function(indent + 1, scope, fdepth, &format!("{key}: "));
                        } else {
                            let e = self.expr(scope, 2);
                            self.line(indent + 1, &format!("{key}: {e}"));
                        }
                    }
                    if self.r.chance(1, 4) {
                        let a = self.simple(scope);
                        self.line(indent + 1, &format!("@display: || 'M{{{a}}}'"));
                    }
                    scope.push(m);
                }
                16 if indent == 0 => {
                    let v = self.fresh("e");
                    let e = self.expr(scope, 2);
                    self.line(indent, &format!("export {v} = {e}"));
                    scope.push(v);
                }
                17 => {
                    let e = self.expr(scope, 2);
                    let f = *self.r.pick(&["print", "debug", "assert"]);
                    self.line(indent, &format!("{f} {e}"));
                }
                18 => {
                    let i1 = self.fresh("i");
                    let i2 = self.fresh("i");
                    let m = self.r.below(4);
                    match self.r.below(3) {
                        0 => self.line(indent, &format!("from mod{m} import {i1}, {i2}")),
                        1 => self.line(indent, &format!("import mod{m} as {i1}")),
                        _ => self.line(indent, &format!("from mod{m} import {i1} as {i2}")),
                    }
                    scope.push(i1);
                }
                19 if in_gen => {
                    let e = self.expr(scope, 1);
                    self.line(indent, &format!("yield {e}"));
                }
                20 if in_loop => {
                    let e = self.simple(scope);
                    self.line(indent, &format!("if {e} == 1"));
                    let w = if self.r.chance(1, 2) { "continue" } else { "break" };
                    self.line(indent + 1, w);
                }
                21 if fdepth > 0 && !in_gen => {
                    let e = self.simple(scope);
                    self.line(indent, &format!("if {e} == 2"));
                    let e2 = self.expr(scope, 1);
                    self.line(indent + 1, &format!("return {e2}"));
                }
                _ => {
                    let e = self.expr(scope, 2);
                    let v = self.fresh("v");
                    self.line(indent, &format!("{v} = {e}"));
                    scope.push(v);
                }
            }
        }
    }
}

pub fn generate_capture_program(r: &mut Rng) -> String {
    let mut g = CapGen {
        budget: r.range(6, 40) as i32,
        r,
        out: vec![],
        n: 0,
    };
    let mut scope = vec![];
    g.block(0, &mut scope, 0, false, false);
    let tail = g.expr(&scope, 2);
    g.line(0, &tail);
    g.out.join("\n") + "\n"
}

// ---------------------------------------------------------------------------------------------

pub struct Scenario {
    pub origin: String,
    pub source: String,
    pub export_top_level_ids: bool,
    pub enable_type_checks: bool,
    pub hash_seeds: Vec<u64>,
}

pub fn make_scenario(run_seed: u64, index: u64, corpus: &[CorpusItem]) -> Scenario {
    let mut kr = Rng::fork(run_seed, "knobs");
    let mut sr = Rng::fork(run_seed, "scenario");
    let mut hr = Rng::fork(run_seed, "schedule");
    let n_corpus = corpus.len() as u64;
    let (origin, source) = if index < 2 * n_corpus {
        // the first runs of every campaign walk the whole corpus, plain and wrapped
        let item = &corpus[(index / 2) as usize];
        if index % 2 == 0 {
            (format!("corpus:{}", item.origin), item.text.clone())
        } else {
            (format!("corpus-wrapped:{}", item.origin), wrap_in_function(&item.text))
        }
    } else {
        match sr.below(8) {
            0..=4 => ("capgen".to_string(), generate_capture_program(&mut sr)),
            5 | 6 => {
                let knobs = GenKnobs::swarm(&mut kr);
                let p = simlang::generate(&mut sr, &knobs);
                let printed = simlang::print(
                    &p,
                    &PrintOpts {
                        noise_seed: if kr.chance(1, 2) { Some(mix(run_seed, 77)) } else { None },
                        main_is_module_body: false,
                        define_globals: true,
                        tests: vec![],
                        main_call: None,
                    },
                );
                ("simlang".to_string(), printed.source)
            }
            _ if n_corpus > 0 => {
                // two corpus programs in one text, the second one wrapped: more names per frame
                let a = &corpus[sr.usize_below(corpus.len())];
                let b = &corpus[sr.usize_below(corpus.len())];
                (
                    format!("corpus-pair:{}+{}", a.origin, b.origin),
                    format!("{}\n{}", a.text, wrap_in_function(&b.text)),
                )
            }
            _ => ("capgen".to_string(), generate_capture_program(&mut sr)),
        }
    };
    let k = hr.range(4, 8);
    let hash_seeds = (0..k).map(|_| hr.next_u64()).collect();
    Scenario {
        origin,
        source,
        export_top_level_ids: kr.chance(1, 4),
        enable_type_checks: !kr.chance(1, 4),
        hash_seeds,
    }
}

/// (functions, functions with >= 2 non-local accesses, largest non-local count)
fn capture_profile(src: &str) -> (u64, u64, u64) {
    set_hash_seed(0);
    let Ok(ast) = std::panic::catch_unwind(|| Parser::parse(src)) else {
        return (0, 0, 0);
    };
    let Ok(ast) = ast else { return (0, 0, 0) };
    let mut f = 0;
    let mut multi = 0;
    let mut max = 0;
    for n in ast.nodes() {
        if let Node::Function(func) = &n.node {
            f += 1;
            let k = func.accessed_non_locals.len() as u64;
            if k >= 2 {
                multi += 1;
            }
            max = max.max(k);
        }
    }
    (f, multi, max)
}

fn minimise(src: &str, exp: bool, tc: bool, ha: u64, hb: u64) -> String {
    let still = |text: &str| compile_under(text, exp, tc, ha) != compile_under(text, exp, tc, hb);
    let mut lines: Vec<String> = src.lines().map(|l| l.to_string()).collect();
    let mut chunk = (lines.len() / 2).max(1);
    let mut budget = 3000;
    loop {
        let mut removed = false;
        let mut i = 0;
        while i < lines.len() && budget > 0 {
            let end = (i + chunk).min(lines.len());
            let mut cand = lines.clone();
            cand.drain(i..end);
            budget -= 1;
            if !cand.is_empty() && still(&(cand.join("\n") + "\n")) {
                lines = cand;
                removed = true;
            } else {
                i += chunk;
            }
        }
        if budget <= 0 {
            break;
        }
        if !removed {
            if chunk == 1 {
                break;
            }
            chunk = (chunk / 2).max(1);
        }
    }
    lines.join("\n") + "\n"
}

pub fn check(sc: &Scenario) -> (Option<ViolationReport>, u64, Outcome) {
    let first = compile_under(&sc.source, sc.export_top_level_ids, sc.enable_type_checks, sc.hash_seeds[0]);
    let mut executions = 1;
    for h in &sc.hash_seeds[1..] {
        let other = compile_under(&sc.source, sc.export_top_level_ids, sc.enable_type_checks, *h);
        executions += 1;
        if other != first {
            let (ha, hb) = (sc.hash_seeds[0], *h);
            let small = minimise(&sc.source, sc.export_top_level_ids, sc.enable_type_checks, ha, hb);
            let a = compile_under(&small, sc.export_top_level_ids, sc.enable_type_checks, ha);
            let b = compile_under(&small, sc.export_top_level_ids, sc.enable_type_checks, hb);
            let detail = format!(
                "the same text compiled under hash seeds {ha} and {hb}: {}",
                describe_difference(&a, &b)
            );
            let v = ViolationReport {
                class: CLASS.into(),
                detail,
                scenario: json!({
                    "source": small,
                    "export_top_level_ids": sc.export_top_level_ids,
                    "enable_type_checks": sc.enable_type_checks,
                    "hash_seed_a": ha.to_string(),
                    "hash_seed_b": hb.to_string(),
                }),
                extra: json!({
                    "origin": sc.origin,
                    "original_lines": sc.source.lines().count(),
                    "minimised_lines": small.lines().count(),
                    "outcome_a": a.summary(),
                    "outcome_b": b.summary(),
                }),
                known: None,
            };
            return (Some(v), executions, first);
        }
    }
    (None, executions, first)
}

pub fn replay(doc: &Value) -> (Option<(String, String)>, u64) {
    if doc["scenario"]["kind"].as_str() == Some("leftover") {
        return replay_leftover(doc);
    }
    let sc = &doc["scenario"];
    let src = sc["source"].as_str().unwrap_or("");
    let exp = sc["export_top_level_ids"].as_bool().unwrap_or(false);
    let tc = sc["enable_type_checks"].as_bool().unwrap_or(true);
    let seed = |k: &str| -> u64 { sc[k].as_str().and_then(|s| s.parse().ok()).unwrap_or(0) };
    let (ha, hb) = (seed("hash_seed_a"), seed("hash_seed_b"));
    let a = compile_under(src, exp, tc, ha);
    let b = compile_under(src, exp, tc, hb);
    let mut d = Digest::new();
    d.str(&a.summary());
    d.str(&b.summary());
    if a != b {
        (
            Some((
                CLASS.to_string(),
                format!(
                    "the same text compiled under hash seeds {ha} and {hb}: {}",
                    describe_difference(&a, &b)
                ),
            )),
            d.0,
        )
    } else {
        (None, d.0)
    }
}

pub struct CompWorker {
    corpus: Arc<Vec<CorpusItem>>,
}

impl CompWorker {
    pub fn new(corpus: Arc<Vec<CorpusItem>>) -> Self {
        Self { corpus }
    }
}

pub const CLASS_LEFTOVER: &str = "compile-depends-on-earlier-compilation";

fn compile_with_loader(
    loader: &mut koto::bytecode::ModuleLoader,
    src: &str,
    export_top_level_ids: bool,
    enable_type_checks: bool,
) -> Outcome {
    set_hash_seed(0);
    let settings = CompilerSettings {
        export_top_level_ids,
        enable_type_checks,
    };
    let r = std::panic::catch_unwind(std::panic::AssertUnwindSafe(|| loader.compile_script(src, None, settings)));
    match r {
        Ok(Ok(c)) => Outcome::Ok((*c).clone()),
        Ok(Err(e)) => Outcome::Err(e.to_string()),
        Err(_) => Outcome::Err("panic while compiling".into()),
    }
}

/// previous program, then this one, through ONE loader; the result for this one must equal what a
/// fresh compiler gives
fn leftover_check(prev: &(String, bool, bool), cur: &(String, bool, bool)) -> Option<String> {
    let mut loader = koto::bytecode::ModuleLoader::default();
    let _ = compile_with_loader(&mut loader, &prev.0, prev.1, prev.2);
    let via = compile_with_loader(&mut loader, &cur.0, cur.1, cur.2);
    let fresh = compile_under(&cur.0, cur.1, cur.2, 0);
    match (&via, &fresh) {
        (Outcome::Ok(_), Outcome::Ok(_)) if via != fresh => Some(describe_difference(&fresh, &via)),
        (Outcome::Ok(_), Outcome::Err(_)) | (Outcome::Err(_), Outcome::Ok(_)) => Some(format!(
            "a fresh compiler gives `{}`, the reused loader `{}`",
            fresh.summary(),
            via.summary()
        )),
        _ => None,
    }
}

thread_local! {
    static MODULE_DIR: std::cell::RefCell<Option<crate::clocksim::Scratch>> = const { std::cell::RefCell::new(None) };
}

/// The same for a MODULE: the text is written to a file and compiled through
/// `ModuleLoader::compile_module`, by a fresh loader and by one that has compiled the partner
/// program (with the partner's settings) before
fn leftover_module_check(prev: &(String, bool, bool), cur: &(String, bool, bool)) -> Option<String> {
    let dir = MODULE_DIR.with(|d| {
        let mut d = d.borrow_mut();
        d.get_or_insert_with(|| crate::clocksim::Scratch::new("comp")).dir.clone()
    });
    std::fs::write(dir.join("cm.koto"), &cur.0).ok()?;
    std::fs::write(dir.join("main.koto"), "").ok()?;
    let script = dir.join("main.koto");
    let compile = |loader: &mut koto::bytecode::ModuleLoader| -> Outcome {
        set_hash_seed(0);
        match std::panic::catch_unwind(std::panic::AssertUnwindSafe(|| loader.compile_module("cm", Some(script.as_path())))) {
            Ok(Ok(r)) => Outcome::Ok((*r.chunk).clone()),
            Ok(Err(e)) => Outcome::Err(e.to_string()),
            Err(_) => Outcome::Err("panic while compiling".into()),
        }
    };
    let fresh = compile(&mut koto::bytecode::ModuleLoader::default());
    let mut used = koto::bytecode::ModuleLoader::default();
    let _ = compile_with_loader(&mut used, &prev.0, prev.1, prev.2);
    let via = compile(&mut used);
    match (&via, &fresh) {
        (Outcome::Ok(_), Outcome::Ok(_)) if via != fresh => Some(format!("as a module: {}", describe_difference(&fresh, &via))),
        (Outcome::Ok(_), Outcome::Err(_)) | (Outcome::Err(_), Outcome::Ok(_)) => Some(format!(
            "as a module: a fresh loader gives `{}`, the used one `{}`",
            fresh.summary(),
            via.summary()
        )),
        _ => None,
    }
}

pub fn replay_leftover(doc: &Value) -> (Option<(String, String)>, u64) {
    let sc = &doc["scenario"];
    let get = |k: &str| -> (String, bool, bool) {
        (
            sc[k]["source"].as_str().unwrap_or("").to_string(),
            sc[k]["export_top_level_ids"].as_bool().unwrap_or(false),
            sc[k]["enable_type_checks"].as_bool().unwrap_or(true),
        )
    };
    match leftover_check(&get("previous"), &get("current")).or_else(|| leftover_module_check(&get("previous"), &get("current"))) {
        Some(d) => (Some((CLASS_LEFTOVER.into(), d)), 1),
        None => (None, 0),
    }
}

impl Worker for CompWorker {
    fn run(&mut self, run_seed: u64, index: u64) -> RunReport {
        let sc = make_scenario(run_seed, index, &self.corpus);
        let (mut violation, mut executions, first) = check(&sc);
        // leftover state: a partner program (seeded, with its own settings) is compiled first
        // through ONE module loader, then this one; a fresh compiler must give the same
        let cur = (sc.source.clone(), sc.export_top_level_ids, sc.enable_type_checks);
        if violation.is_none() {
            let partner = make_scenario(mix(run_seed, 0x9a27), u64::MAX, &self.corpus);
            let prev = (partner.source, partner.export_top_level_ids, partner.enable_type_checks);
            executions += 6;
            if let Some(detail) = leftover_check(&prev, &cur).or_else(|| leftover_module_check(&prev, &cur)) {
                violation = Some(ViolationReport {
                    class: CLASS_LEFTOVER.into(),
                    detail: format!("compiling another text first changes the result: {detail}"),
                    scenario: json!({
                        "kind": "leftover",
                        "previous": {"source": prev.0, "export_top_level_ids": prev.1, "enable_type_checks": prev.2},
                        "current": {"source": cur.0, "export_top_level_ids": cur.1, "enable_type_checks": cur.2},
                    }),
                    extra: json!({"origin": sc.origin}),
                    known: None,
                });
            }
        }
        let (funcs, multi, max) = capture_profile(&sc.source);
        let mut d = Digest::new();
        d.str(&sc.source);
        match &first {
            Outcome::Ok(c) => {
                d.u64(c.bytes.len() as u64);
                for chunk in c.bytes.chunks(8) {
                    let mut w = [0u8; 8];
                    w[..chunk.len()].copy_from_slice(chunk);
                    d.u64(u64::from_le_bytes(w));
                }
            }
            Outcome::Err(e) => d.str(e),
        }
        d.u64(violation.is_some() as u64);
        let kind = sc.origin.split(':').next().unwrap_or("").to_string();
        let compiled = matches!(first, Outcome::Ok(_));
        let mut counters: Vec<(&'static str, u64)> = vec![
            ("compilations", executions),
            ("hash_seeds_tried", sc.hash_seeds.len() as u64),
            ("programs.compiled_ok", compiled as u64),
            ("programs.rejected_with_error", !compiled as u64),
            ("functions", funcs),
            ("functions.with_2_or_more_non_locals", multi),
            ("fault.hash_randomness_changed", sc.hash_seeds.len() as u64 - 1),
        ];
        counters.push(match kind.as_str() {
            "corpus" => ("source.corpus", 1),
            "corpus-wrapped" => ("source.corpus_wrapped", 1),
            "corpus-pair" => ("source.corpus_pair", 1),
            "simlang" => ("source.simlang", 1),
            _ => ("source.capgen", 1),
        });
        if !compiled {
            counters.push(match kind.as_str() {
                "corpus" => ("rejected.corpus", 1),
                "corpus-wrapped" => ("rejected.corpus_wrapped", 1),
                "corpus-pair" => ("rejected.corpus_pair", 1),
                "simlang" => ("rejected.simlang", 1),
                _ => ("rejected.capgen", 1),
            });
        }
        // non-trivial: the order of a set with at least two members can reach the output
        let signature = if multi > 0 && compiled {
            Some(mix(mix(hash_str(&kind), multi.min(6)), mix(max.min(8), funcs.min(12))))
        } else {
            None
        };
        let sample = if index < 3 || (multi > 0 && index % 1000 == 0) {
            Some(json!({
                "run_seed": run_seed.to_string(),
                "origin": sc.origin,
                "source_lines": sc.source.lines().count(),
                "functions": funcs,
                "functions_with_2_or_more_non_locals": multi,
                "hash_seeds": sc.hash_seeds.iter().map(|h| h.to_string()).collect::<Vec<_>>(),
                "outcome": first.summary(),
            }))
        } else {
            None
        };
        RunReport {
            digest: d.0,
            signature,
            violations: violation.into_iter().collect(),
            counters,
            executions,
            sim_units: executions,
            sample,
            harness_error: None,
        }
    }
}

pub fn show(run_seed: u64, index: u64) {
    let corpus = load_corpus();
    let sc = make_scenario(run_seed, index, &corpus);
    println!("# origin {} settings export={} type_checks={} hash seeds {:?}", sc.origin, sc.export_top_level_ids, sc.enable_type_checks, sc.hash_seeds);
    println!("{}", sc.source);
    let (v, n, first) = check(&sc);
    println!("# {n} compilations, first: {}", first.summary());
    if let Some(v) = v {
        println!("# VIOLATION {} {}", v.class, v.detail);
    }
}
