//! Seeded PRNG: one integer decides everything.
//! splitmix64 for seeding / hashing, xoshiro256** for streams.

#[inline]
pub fn splitmix64(mut x: u64) -> u64 {
    x = x.wrapping_add(0x9E37_79B9_7F4A_7C15);
    let mut z = x;
    z = (z ^ (z >> 30)).wrapping_mul(0xBF58_476D_1CE4_E5B9);
    z = (z ^ (z >> 27)).wrapping_mul(0x94D0_49BB_1331_11EB);
    z ^ (z >> 31)
}

/// FNV-1a over a string, used to derive sub-stream and engine ids from names
pub fn hash_str(s: &str) -> u64 {
    let mut h: u64 = 0xcbf2_9ce4_8422_2325;
    for b in s.bytes() {
        h ^= b as u64;
        h = h.wrapping_mul(0x1000_0000_01b3);
    }
    h
}

/// Mixes two integers into one, order-sensitive
#[inline]
pub fn mix(a: u64, b: u64) -> u64 {
    splitmix64(a ^ splitmix64(b).rotate_left(17))
}

#[derive(Clone, Debug)]
pub struct Rng {
    s: [u64; 4],
}

impl Rng {
    pub fn new(seed: u64) -> Self {
        let mut x = seed;
        let mut s = [0u64; 4];
        for v in s.iter_mut() {
            x = splitmix64(x);
            *v = x;
        }
        if s == [0; 4] {
            s[0] = 1;
        }
        Self { s }
    }

    /// An independent sub-stream for a named purpose
    pub fn fork(seed: u64, purpose: &str) -> Self {
        Self::new(mix(seed, hash_str(purpose)))
    }

    #[inline]
    pub fn next_u64(&mut self) -> u64 {
        let result = self.s[1].wrapping_mul(5).rotate_left(7).wrapping_mul(9);
        let t = self.s[1] << 17;
        self.s[2] ^= self.s[0];
        self.s[3] ^= self.s[1];
        self.s[1] ^= self.s[2];
        self.s[0] ^= self.s[3];
        self.s[2] ^= t;
        self.s[3] = self.s[3].rotate_left(45);
        result
    }

    /// Uniform in 0..n (n > 0)
    #[inline]
    pub fn below(&mut self, n: u64) -> u64 {
        debug_assert!(n > 0);
        // multiply-shift; bias is irrelevant here
        ((self.next_u64() as u128 * n as u128) >> 64) as u64
    }

    #[inline]
    pub fn usize_below(&mut self, n: usize) -> usize {
        self.below(n as u64) as usize
    }

    /// Uniform in lo..=hi
    #[inline]
    pub fn range(&mut self, lo: u64, hi: u64) -> u64 {
        lo + self.below(hi - lo + 1)
    }

    #[inline]
    pub fn irange(&mut self, lo: i64, hi: i64) -> i64 {
        lo + self.below((hi - lo + 1) as u64) as i64
    }

    /// True with probability num/den
    #[inline]
    pub fn chance(&mut self, num: u64, den: u64) -> bool {
        self.below(den) < num
    }

    pub fn pick<'a, T>(&mut self, items: &'a [T]) -> &'a T {
        &items[self.usize_below(items.len())]
    }

    pub fn pick_weighted<'a, T>(&mut self, items: &'a [(u32, T)]) -> &'a T {
        let total: u64 = items.iter().map(|(w, _)| *w as u64).sum();
        let mut x = self.below(total.max(1));
        for (w, item) in items {
            if x < *w as u64 {
                return item;
            }
            x -= *w as u64;
        }
        &items[items.len() - 1].1
    }

    pub fn shuffle<T>(&mut self, items: &mut [T]) {
        for i in (1..items.len()).rev() {
            let j = self.usize_below(i + 1);
            items.swap(i, j);
        }
    }
}

/// A running 64 bit digest used for event logs and signatures
#[derive(Clone, Copy, Debug, PartialEq, Eq, Hash)]
pub struct Digest(pub u64);

impl Default for Digest {
    fn default() -> Self {
        Self(0x1234_5678_9abc_def0)
    }
}

impl Digest {
    pub fn new() -> Self {
        Self::default()
    }
    #[inline]
    pub fn u64(&mut self, v: u64) {
        self.0 = mix(self.0, v);
    }
    pub fn str(&mut self, s: &str) {
        self.u64(hash_str(s));
        self.u64(s.len() as u64);
    }
}
