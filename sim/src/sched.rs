//! The baton scheduler (seam H1): real OS threads, exactly one of which runs at any time.
//! Threads hand the baton back only immediately before a lock acquisition on a *shared*
//! address and at operation boundaries; the scheduler alone decides who runs next.
//!
//! The real `parking_lot::RwLock` is really acquired, but only once the scheduler has
//! established with the hook's probes that the acquisition cannot block. Blocking — including
//! parking_lot's writer preference — is represented here (see DESIGN.md section 5 C19).

use crate::rng::Rng;
#[cfg(feature = "arc")]
use koto_memory::verif::LockIntent;

/// stand-in so that this module also compiles in the rc build (where it is never used)
#[cfg(not(feature = "arc"))]
#[derive(Clone, Copy, Debug, PartialEq, Eq, Hash)]
pub enum LockIntent {
    Read,
    Write,
    TryRead,
    TryWrite,
}
use std::cell::RefCell;
use std::collections::{BTreeSet, HashMap, HashSet};
use std::sync::{Arc, Condvar, Mutex};

/// Payload used to unwind threads out of the hook when a run is aborted
pub struct SchedAbort;

#[derive(Clone, Debug)]
pub enum Strategy {
    /// uniform random choice, continuing the running thread with probability (den-1)/den
    RandomWalk { stickiness: u64 },
    /// PCT style: random priorities, the running thread is demoted at the change points
    Pct { change_points: Vec<u64> },
    /// replay recorded decisions
    Replay(Vec<u8>),
}

#[derive(Clone, Debug, PartialEq)]
pub enum Status {
    /// not yet at its first scheduling point, or ready to run
    Ready,
    Blocked { addr: usize, intent: LockIntent },
    Finished,
}

#[derive(Clone, Debug)]
pub struct LockEvent {
    pub seq: u64,
    pub thread: usize,
    /// index of the shared address (order of registration), not the address itself
    pub addr_class: usize,
    pub intent: LockIntent,
    pub granted: bool,
}

const MAIN: usize = usize::MAX;

pub struct State {
    pub current: usize,
    pub status: Vec<Status>,
    failed_probe: BTreeSet<usize>,
    claims: HashMap<usize, usize>,
    shared: HashMap<usize, usize>,
    pub strategy: Strategy,
    rng: Rng,
    priorities: Vec<u64>,
    pub decisions: Vec<u8>,
    pub events: Vec<LockEvent>,
    pub seq: u64,
    pub sched_points: u64,
    pub abort: bool,
    pub deadlock: Option<String>,
    pub harness_error: Option<String>,
    pub phase_over: bool,
    pub step_cap: u64,
    /// thread that was running before the current one (to count real switches)
    pub context_switches: u64,
    /// lock intents that arrived while the same thread was inside an operation that already
    /// performed an earlier shared lock event, and a different thread ran in between
    pub preemptions_inside_op: u64,
    pub try_intents_on_shared: u64,
    pub blocked_events: u64,
    pub claims_made: u64,
    /// per thread: (events in the current op so far, last event seq)
    in_op_events: Vec<u64>,
    last_runner_event: Vec<u64>,
    last_event_thread: usize,
    pub replay_diverged: bool,
}

pub struct Sched {
    pub state: Mutex<State>,
    pub cv: Condvar,
}

thread_local! {
    static ME: RefCell<Option<(Arc<Sched>, usize)>> = const { RefCell::new(None) };
    static RECORDER: RefCell<Option<Vec<usize>>> = const { RefCell::new(None) };
    /// set while a workload runs sequentially on this thread without a scheduler: a blocking
    /// lock intent that cannot be granted would wait for this very thread for ever
    static SOLO: std::cell::Cell<bool> = const { std::cell::Cell::new(false) };
}

pub const SELF_DEADLOCK: &str = "SELF-DEADLOCK";

/// Runs `f` with the solo guard set (no-op in the rc build, where the borrow flag panics instead)
pub fn solo<T>(f: impl FnOnce() -> T) -> T {
    SOLO.with(|s| s.set(true));
    let r = f();
    SOLO.with(|s| s.set(false));
    r
}

/// Installs the process-global hook once
#[cfg(not(feature = "arc"))]
pub fn install_global_hook() {}

#[cfg(feature = "arc")]
pub fn install_global_hook() {
    use std::sync::Once;
    static ONCE: Once = Once::new();
    ONCE.call_once(|| {
        koto_memory::verif::set_lock_hook(Some(Arc::new(
            |addr, intent, can_read: &dyn Fn() -> bool, can_write: &dyn Fn() -> bool| {
                let rec = RECORDER.with(|r| {
                    if let Some(v) = r.borrow_mut().as_mut() {
                        v.push(addr);
                        true
                    } else {
                        false
                    }
                });
                if rec {
                    return;
                }
                let me = ME.with(|m| m.borrow().clone());
                if let Some((sched, tid)) = me {
                    sched.at_intent(tid, addr, intent, can_read, can_write);
                } else if SOLO.with(|s| s.get()) {
                    let granted = match intent {
                        LockIntent::Read => can_read(),
                        LockIntent::Write => can_write(),
                        LockIntent::TryRead | LockIntent::TryWrite => true,
                    };
                    if !granted {
                        SOLO.with(|s| s.set(false));
                        panic!("{SELF_DEADLOCK}: the only running thread requests {intent:?} on a lock it holds itself in a conflicting mode");
                    }
                }
            },
        )));
    });
}

/// Records the lock addresses touched while running `f` on this thread
pub fn record_addresses(f: impl FnOnce()) -> Vec<usize> {
    RECORDER.with(|r| *r.borrow_mut() = Some(vec![]));
    f();
    RECORDER.with(|r| r.borrow_mut().take().unwrap_or_default())
}

pub fn attach(sched: &Arc<Sched>, tid: usize) {
    ME.with(|m| *m.borrow_mut() = Some((sched.clone(), tid)));
}

pub fn detach() {
    ME.with(|m| *m.borrow_mut() = None);
}

impl Sched {
    pub fn new(
        threads: usize,
        shared_addrs: &[usize],
        strategy: Strategy,
        seed: u64,
        step_cap: u64,
    ) -> Arc<Self> {
        let mut rng = Rng::fork(seed, "schedule");
        let mut priorities: Vec<u64> = (0..threads as u64).map(|i| 1000 + i).collect();
        rng.shuffle(&mut priorities);
        let shared = shared_addrs
            .iter()
            .enumerate()
            .map(|(i, a)| (*a, i))
            .collect();
        Arc::new(Self {
            state: Mutex::new(State {
                current: MAIN,
                status: vec![Status::Ready; threads],
                failed_probe: BTreeSet::new(),
                claims: HashMap::new(),
                shared,
                strategy,
                rng,
                priorities,
                decisions: vec![],
                events: vec![],
                seq: 0,
                sched_points: 0,
                abort: false,
                deadlock: None,
                harness_error: None,
                phase_over: false,
                step_cap,
                context_switches: 0,
                preemptions_inside_op: 0,
                try_intents_on_shared: 0,
                blocked_events: 0,
                claims_made: 0,
                in_op_events: vec![0; threads],
                last_runner_event: vec![0; threads],
                last_event_thread: MAIN,
                replay_diverged: false,
            }),
            cv: Condvar::new(),
        })
    }

    /// Main thread: hands the baton to the first thread and waits until all are finished
    pub fn run_to_completion(&self) {
        let mut st = self.state.lock().unwrap();
        let cands: Vec<usize> = (0..st.status.len()).collect();
        let first = st.choose(&cands, MAIN);
        st.current = first;
        self.cv.notify_all();
        while st.current != MAIN {
            st = self.cv.wait(st).unwrap();
        }
        st.phase_over = true;
        self.cv.notify_all();
    }

    fn abort_now(&self, mut st: std::sync::MutexGuard<'_, State>) -> ! {
        st.abort = true;
        self.cv.notify_all();
        drop(st);
        std::panic::panic_any(SchedAbort);
    }

    /// Hands the baton to `next` and waits until it comes back to `me`
    fn hand_over<'a>(
        &'a self,
        mut st: std::sync::MutexGuard<'a, State>,
        me: usize,
        next: usize,
    ) -> std::sync::MutexGuard<'a, State> {
        if next != me {
            st.context_switches += 1;
            st.current = next;
            self.cv.notify_all();
            while st.current != me && !st.abort {
                st = self.cv.wait(st).unwrap();
            }
        }
        st
    }

    /// Waits for the very first baton
    pub fn wait_for_start(&self, me: usize) {
        let mut st = self.state.lock().unwrap();
        while st.current != me && !st.abort {
            st = self.cv.wait(st).unwrap();
        }
        if st.abort {
            drop(st);
            std::panic::panic_any(SchedAbort);
        }
    }

    fn candidates(st: &State, me: usize, me_ok: bool) -> Vec<usize> {
        (0..st.status.len())
            .filter(|t| st.status[*t] != Status::Finished)
            .filter(|t| !st.failed_probe.contains(t))
            .filter(|t| *t != me || me_ok)
            .collect()
    }

    pub fn at_intent(
        &self,
        me: usize,
        addr: usize,
        intent: LockIntent,
        can_read: &dyn Fn() -> bool,
        can_write: &dyn Fn() -> bool,
    ) {
        let mut st = self.state.lock().unwrap();
        if st.phase_over {
            return;
        }
        let Some(&addr_class) = st.shared.get(&addr) else {
            return;
        };
        if matches!(intent, LockIntent::TryRead | LockIntent::TryWrite) {
            st.try_intents_on_shared += 1;
        }
        loop {
            if st.abort {
                drop(st);
                std::panic::panic_any(SchedAbort);
            }
            st.sched_points += 1;
            if st.sched_points > st.step_cap {
                st.harness_error = Some("scheduler step cap exceeded".into());
                self.abort_now(st);
            }
            let other_claim = st.claims.get(&addr).is_some_and(|t| *t != me);
            let grantable = match intent {
                LockIntent::Read => can_read() && !other_claim,
                LockIntent::Write => can_write(),
                LockIntent::TryRead | LockIntent::TryWrite => true,
            };
            if grantable {
                st.status[me] = Status::Ready;
            } else {
                if st.status[me] == Status::Ready {
                    st.blocked_events += 1;
                    st.seq += 1;
                    let seq = st.seq;
                    st.events.push(LockEvent {
                        seq,
                        thread: me,
                        addr_class,
                        intent,
                        granted: false,
                    });
                }
                st.status[me] = Status::Blocked { addr, intent };
                st.failed_probe.insert(me);
                // a writer that finds the lock read-held claims it: new readers wait behind it
                if intent == LockIntent::Write && can_read() && !st.claims.contains_key(&addr) {
                    st.claims.insert(addr, me);
                    st.claims_made += 1;
                }
            }
            let cands = Self::candidates(&st, me, grantable);
            if cands.is_empty() {
                let desc = (0..st.status.len())
                    .map(|t| format!("t{t}:{:?}", st.status[t]))
                    .collect::<Vec<_>>()
                    .join(" ");
                st.deadlock = Some(desc);
                self.abort_now(st);
            }
            let next = st.choose(&cands, me);
            if next == me {
                // proceed with the acquisition
                if st.claims.get(&addr) == Some(&me) {
                    st.claims.remove(&addr);
                }
                st.failed_probe.clear();
                st.seq += 1;
                let seq = st.seq;
                st.events.push(LockEvent {
                    seq,
                    thread: me,
                    addr_class,
                    intent,
                    granted: true,
                });
                if st.in_op_events[me] > 0 && st.last_event_thread != me {
                    st.preemptions_inside_op += 1;
                }
                st.in_op_events[me] += 1;
                st.last_event_thread = me;
                st.last_runner_event[me] = seq;
                return;
            }
            st = self.hand_over(st, me, next);
        }
    }

    /// Scheduling point at the start of an operation; returns the invoke stamp
    pub fn op_begin(&self, me: usize) -> u64 {
        let mut st = self.state.lock().unwrap();
        loop {
            if st.abort {
                drop(st);
                std::panic::panic_any(SchedAbort);
            }
            st.sched_points += 1;
            st.status[me] = Status::Ready;
            let cands = Self::candidates(&st, me, true);
            let next = st.choose(&cands, me);
            if next == me {
                st.failed_probe.clear();
                st.in_op_events[me] = 0;
                st.seq += 1;
                return st.seq;
            }
            st = self.hand_over(st, me, next);
        }
    }

    /// Returns the return stamp
    pub fn op_end(&self, me: usize) -> u64 {
        let mut st = self.state.lock().unwrap();
        st.in_op_events[me] = 0;
        st.seq += 1;
        st.seq
    }

    /// The thread has no more operations (or died): pass the baton on for good
    pub fn finish(&self, me: usize) {
        let mut st = self.state.lock().unwrap();
        st.status[me] = Status::Finished;
        st.failed_probe.clear();
        if st.abort {
            // during an abort everybody just leaves; the last one wakes main
            if st.status.iter().all(|s| *s == Status::Finished) {
                st.current = MAIN;
            }
            self.cv.notify_all();
            return;
        }
        let cands = Self::candidates(&st, me, false);
        if cands.is_empty() {
            st.current = MAIN;
        } else {
            let next = st.choose(&cands, me);
            st.current = next;
        }
        self.cv.notify_all();
    }

    /// After an abort: wait until every thread has left
    pub fn wait_phase_over(&self) {
        let mut st = self.state.lock().unwrap();
        while !st.phase_over {
            st = self.cv.wait(st).unwrap();
        }
    }
}

impl State {
    fn choose(&mut self, cands: &[usize], current: usize) -> usize {
        debug_assert!(!cands.is_empty());
        let pick = match &mut self.strategy {
            Strategy::Replay(d) => {
                let ix = self.decisions.len();
                match d.get(ix) {
                    Some(&t) if cands.contains(&(t as usize)) => t as usize,
                    _ => {
                        self.replay_diverged = true;
                        cands[0]
                    }
                }
            }
            Strategy::RandomWalk { stickiness } => {
                if cands.contains(&current) && self.rng.below(*stickiness) != 0 {
                    current
                } else {
                    cands[self.rng.usize_below(cands.len())]
                }
            }
            Strategy::Pct { change_points } => {
                let point = self.decisions.len() as u64;
                if change_points.contains(&point) && current != MAIN {
                    let lowest = self.priorities.iter().copied().min().unwrap_or(0);
                    self.priorities[current] = lowest.saturating_sub(1);
                }
                *cands
                    .iter()
                    .max_by_key(|t| self.priorities[**t])
                    .unwrap()
            }
        };
        self.decisions.push(pick as u8);
        pick
    }

    /// Hash of the (thread, address class, read/write, granted) sequence
    pub fn interleaving_signature(&self) -> u64 {
        let mut d = crate::rng::Digest::new();
        for e in &self.events {
            d.u64(e.thread as u64);
            d.u64(e.addr_class as u64);
            d.u64(e.intent as u64);
            d.u64(e.granted as u64);
        }
        d.0
    }
}

#[allow(dead_code)]
pub fn unused(_: HashSet<u8>) {}
