//! Generic campaign driver: seeded runs over worker threads, violation collection,
//! evidence accounting. Engines plug in through `Worker`.

use crate::rng::{hash_str, mix, splitmix64};
use serde_json::{Map, Value, json};
use std::collections::{BTreeMap, HashSet};
use std::sync::atomic::{AtomicBool, AtomicU64, Ordering};
use std::sync::{Arc, Mutex};
use std::time::Instant;

pub struct ViolationReport {
    pub class: String,
    pub detail: String,
    /// the scenario part of the replay file (explicit, self-contained)
    pub scenario: Value,
    /// extra informational fields (spec summary, minimisation sizes, event log …)
    pub extra: Value,
    /// Some(id) when the minimised scenario matches an open known finding
    pub known: Option<String>,
}

#[derive(Default)]
pub struct RunReport {
    pub digest: u64,
    /// Some(sig) when the run is non-trivial by the engine's rule
    pub signature: Option<u64>,
    pub violations: Vec<ViolationReport>,
    pub counters: Vec<(&'static str, u64)>,
    /// executions of the system under test performed for this run
    pub executions: u64,
    /// engine specific unit of simulated time / work
    pub sim_units: u64,
    pub sample: Option<Value>,
    /// harness error: stops the campaign with exit 2
    pub harness_error: Option<String>,
}

pub trait Worker {
    fn run(&mut self, run_seed: u64, index: u64) -> RunReport;
}

pub struct CampaignConfig {
    pub engine: &'static str,
    pub property: &'static str,
    pub base_seed: u64,
    pub runs: u64,
    pub max_seconds: f64,
    pub threads: usize,
    pub keep_going: bool,
    /// development mode: the first run-level harness error stops the campaign with exit 2.
    /// Otherwise such runs are counted as inconclusive (their verdict is never a violation) and
    /// the campaign only fails with exit 2 when more than 0.5 % of the runs are inconclusive.
    pub strict: bool,
    pub digest_file: Option<String>,
    pub replay_dir: String,
}

pub struct CampaignResult {
    pub runs: u64,
    pub executions: u64,
    pub sim_units: u64,
    pub distinct: u64,
    pub nontrivial_runs: u64,
    pub counters: BTreeMap<String, u64>,
    pub samples: Vec<Value>,
    /// unknown violations: (class, detail, replay path)
    pub violations: Vec<(String, String, String)>,
    /// known finding id -> hits
    pub known_hits: BTreeMap<String, u64>,
    pub class_histogram: BTreeMap<String, u64>,
    pub wall_s: f64,
    pub harness_error: Option<String>,
    pub inconclusive: u64,
    pub inconclusive_examples: Vec<String>,
    pub digest_of_digests: u64,
}

fn resident_mb() -> u64 {
    std::fs::read_to_string("/proc/self/statm")
        .ok()
        .and_then(|s| s.split_whitespace().nth(1).and_then(|x| x.parse::<u64>().ok()))
        .unwrap_or(0)
        * 4
        / 1024
}

fn max_resident_mb() -> u64 {
    std::env::var("KOTOSIM_MAX_RSS_MB")
        .ok()
        .and_then(|s| s.parse().ok())
        .unwrap_or(16_000)
}

pub fn run_seed(base: u64, engine: &str, index: u64) -> u64 {
    splitmix64(mix(base ^ hash_str(engine), index))
}

pub fn write_replay(
    cfg: &CampaignConfig,
    run_seed: u64,
    index: u64,
    v: &ViolationReport,
) -> String {
    let _ = std::fs::create_dir_all(&cfg.replay_dir);
    let path = format!(
        "{}/{}-{}-{}.json",
        cfg.replay_dir, cfg.property, cfg.engine, run_seed
    );
    let doc = json!({
        "property": cfg.property,
        "engine": cfg.engine,
        "base_seed": cfg.base_seed,
        "run_index": index,
        "run_seed": run_seed,
        "violation": { "class": v.class, "detail": v.detail },
        "scenario": v.scenario,
        "extra": v.extra,
    });
    std::fs::write(&path, serde_json::to_string_pretty(&doc).unwrap()).expect("write replay");
    path
}

pub fn run_campaign<F>(cfg: &CampaignConfig, make_worker: F) -> CampaignResult
where
    F: Fn(usize) -> Box<dyn Worker> + Send + Sync,
{
    let start = Instant::now();
    let next = AtomicU64::new(0);
    let stop = AtomicBool::new(false);
    struct Shared {
        runs: u64,
        executions: u64,
        sim_units: u64,
        nontrivial: u64,
        sigs: HashSet<u64>,
        counters: BTreeMap<String, u64>,
        samples: Vec<(u64, Value)>,
        violations: Vec<(String, String, String)>,
        known_hits: BTreeMap<String, u64>,
        classes: BTreeMap<String, u64>,
        harness_error: Option<String>,
        inconclusive: u64,
        inconclusive_examples: Vec<String>,
        digests: Vec<(u64, u64)>,
    }
    let shared = Arc::new(Mutex::new(Shared {
        runs: 0,
        executions: 0,
        sim_units: 0,
        nontrivial: 0,
        sigs: HashSet::new(),
        counters: BTreeMap::new(),
        samples: vec![],
        violations: vec![],
        known_hits: BTreeMap::new(),
        classes: BTreeMap::new(),
        harness_error: None,
        inconclusive: 0,
        inconclusive_examples: vec![],
        digests: vec![],
    }));
    let want_digests = true;

    std::thread::scope(|scope| {
        for t in 0..cfg.threads.max(1) {
            let shared = shared.clone();
            let next = &next;
            let stop = &stop;
            let make_worker = &make_worker;
            std::thread::Builder::new()
                .stack_size(64 << 20)
                .spawn_scoped(scope, move || {
                    let mut worker = make_worker(t);
                    loop {
                        if stop.load(Ordering::Relaxed) {
                            break;
                        }
                        let i = next.fetch_add(1, Ordering::Relaxed);
                        if i >= cfg.runs {
                            break;
                        }
                        if cfg.max_seconds > 0.0 && start.elapsed().as_secs_f64() > cfg.max_seconds {
                            break;
                        }
                        // a campaign that keeps growing is a harness problem (e.g. a generated
                        // construct that koto's reference counting never frees): say so instead
                        // of being killed by the kernel
                        if i % 512 == 0 && resident_mb() > max_resident_mb() {
                            let mut s = shared.lock().unwrap();
                            s.harness_error.get_or_insert(format!(
                                "resident memory above {} MB after {} runs (KOTOSIM_MAX_RSS_MB): the campaign leaks",
                                max_resident_mb(),
                                i
                            ));
                            stop.store(true, Ordering::Relaxed);
                            break;
                        }
                        let rs = run_seed(cfg.base_seed, cfg.engine, i);
                        let rep = worker.run(rs, i);
                        let mut replays = vec![];
                        for v in &rep.violations {
                            if v.known.is_none() {
                                replays.push(Some(write_replay(cfg, rs, i, v)));
                            } else {
                                replays.push(None);
                            }
                        }
                        let mut s = shared.lock().unwrap();
                        s.runs += 1;
                        s.executions += rep.executions;
                        s.sim_units += rep.sim_units;
                        if let Some(sig) = rep.signature {
                            s.nontrivial += 1;
                            s.sigs.insert(sig);
                        }
                        for (k, v) in rep.counters {
                            *s.counters.entry(k.to_string()).or_default() += v;
                        }
                        if let Some(sample) = rep.sample
                            && (s.samples.len() < 4 || i < 4)
                        {
                            s.samples.push((i, sample));
                        }
                        if want_digests {
                            s.digests.push((i, rep.digest));
                        }
                        if let Some(e) = rep.harness_error {
                            if cfg.strict {
                                s.harness_error.get_or_insert(format!("run {i} seed {rs}: {e}"));
                                stop.store(true, Ordering::Relaxed);
                            } else {
                                s.inconclusive += 1;
                                if s.inconclusive_examples.len() < 5 {
                                    let short: String = e.chars().take(400).collect();
                                    s.inconclusive_examples.push(format!("run {i} seed {rs}: {short}"));
                                }
                            }
                        }
                        for (v, path) in rep.violations.into_iter().zip(replays) {
                            *s.classes.entry(v.class.clone()).or_default() += 1;
                            match (v.known, path) {
                                (Some(id), _) => *s.known_hits.entry(id).or_default() += 1,
                                (None, Some(path)) => {
                                    s.violations.push((v.class, v.detail, path));
                                    if !cfg.keep_going {
                                        stop.store(true, Ordering::Relaxed);
                                    }
                                }
                                _ => {}
                            }
                        }
                    }
                })
                .expect("spawn worker");
        }
    });

    let mut s = Arc::try_unwrap(shared).ok().unwrap().into_inner().unwrap();
    s.samples.sort_by_key(|(i, _)| *i);
    s.samples.truncate(3);
    s.digests.sort();
    let mut dd = crate::rng::Digest::new();
    for (i, d) in &s.digests {
        dd.u64(*i);
        dd.u64(*d);
    }
    if let Some(f) = &cfg.digest_file {
        let text: String = s
            .digests
            .iter()
            .map(|(i, d)| format!("{i} {d:016x}\n"))
            .collect();
        std::fs::write(f, text).expect("write digests");
    }
    CampaignResult {
        runs: s.runs,
        executions: s.executions,
        sim_units: s.sim_units,
        distinct: s.sigs.len() as u64,
        nontrivial_runs: s.nontrivial,
        counters: s.counters,
        samples: s.samples.into_iter().map(|(_, v)| v).collect(),
        violations: s.violations,
        known_hits: s.known_hits,
        class_histogram: s.classes,
        wall_s: start.elapsed().as_secs_f64(),
        harness_error: if s.harness_error.is_none() && s.inconclusive * 200 > s.runs.max(200) {
            Some(format!(
                "{} of {} runs were inconclusive (harness could not decide them); first: {}",
                s.inconclusive,
                s.runs,
                s.inconclusive_examples.first().cloned().unwrap_or_default()
            ))
        } else {
            s.harness_error
        },
        inconclusive: s.inconclusive,
        inconclusive_examples: s.inconclusive_examples,
        digest_of_digests: dd.0,
    }
}

/// Builds the part of an evidence file that every engine shares
pub fn evidence_part(
    cfg: &CampaignConfig,
    res: &CampaignResult,
    tier: &str,
    level: &str,
    rule: &str,
    sim_unit_name: &str,
    components: Value,
    assumptions: Vec<String>,
    extra: Map<String, Value>,
) -> Value {
    let per_hour = |n: u64| -> u64 {
        if res.wall_s > 0.0 {
            (n as f64 * 3600.0 / res.wall_s) as u64
        } else {
            0
        }
    };
    let mut coverage = Map::new();
    coverage.insert("evaluations".into(), json!(res.executions.max(res.runs)));
    coverage.insert("distinct_nontrivial".into(), json!(res.distinct));
    coverage.insert("rule".into(), json!(rule));
    coverage.insert("samples".into(), json!(res.samples));
    coverage.insert("simulated_runs".into(), json!(res.runs));
    coverage.insert("nontrivial_runs".into(), json!(res.nontrivial_runs));
    coverage.insert("runs_per_hour".into(), json!(per_hour(res.runs)));
    coverage.insert("seeds_per_hour".into(), json!(per_hour(res.runs)));
    coverage.insert("executions_per_hour".into(), json!(per_hour(res.executions)));
    coverage.insert(
        "simulated_time".into(),
        json!({ "unit": sim_unit_name, "covered": res.sim_units }),
    );
    coverage.insert("counters".into(), json!(res.counters));
    coverage.insert("components".into(), components);
    coverage.insert(
        "known_finding_hits".into(),
        json!(res.known_hits),
    );
    coverage.insert("violation_classes_seen".into(), json!(res.class_histogram));
    coverage.insert("event_log_digest".into(), json!(format!("{:016x}", res.digest_of_digests)));
    coverage.insert("exhaustive".into(), json!(false));
    coverage.insert(
        "inconclusive_runs".into(),
        json!({"count": res.inconclusive, "meaning": "runs the harness could not decide (e.g. reference model and koto disagree on an error-free execution, which is outside the property's domain); never reported as violations; more than 0.5 % of the runs makes the check exit 2", "examples": res.inconclusive_examples}),
    );
    for (k, v) in extra {
        coverage.insert(k, v);
    }
    json!({
        "property_id": cfg.property,
        "engine": cfg.engine,
        "tier": tier,
        "seed": cfg.base_seed,
        "level": level,
        "coverage": coverage,
        "assumptions": assumptions,
        "wall_s": res.wall_s,
        "violations": res.violations.len(),
    })
}
