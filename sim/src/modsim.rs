//! `modsim` — decides C18 (modules: exports, imports and caching): generated module graphs on a
//! simulated disk (a per-run scratch directory the real loader reads), import histories on one
//! runtime, failing / healing modules and read faults; reference model of the module cache.

use crate::campaign::{RunReport, ViolationReport, Worker};
use crate::clocksim::Scratch;
use crate::host::{self, Host, HostSettings};
use crate::known::KnownFindings;
use crate::rng::{Digest, Rng};
use crate::vclock::{CostProfile, StepCapExceeded, VClock};
use koto::prelude::*;
use serde_json::{Value, json};
use std::collections::{BTreeMap, BTreeSet};
use std::panic::{AssertUnwindSafe, catch_unwind};
use std::rc::Rc;
use std::sync::{Arc, Mutex};

pub const STEP_CAP: u64 = 300_000;

// ---------------------------------------------------------------------------------------------
// The simulated world

#[derive(Clone, Copy, Debug, PartialEq, Eq, Hash)]
pub enum Form {
    /// `import mX` … `mX.item`
    Plain,
    /// `import mX as qN`
    As,
    /// `from mX import item`
    FromItem,
    /// `from mX import item as qN`
    FromItemAs,
    /// `from mX import *`
    Wildcard,
    /// `from mX import nosuchitem`
    MissingItem,
    /// `from mR.sub import item` where module R exports module X as `sub`
    NestedItem,
    /// `from mR.sub import *`
    NestedWildcard,
    /// `import hX` from inside the directory module mX (a private helper file `mX/hX.koto`)
    HelperInside,
    /// `import 'mX/hX' as qN` from a file in the root directory: the same file by another spelling
    HelperByPath,
}

#[derive(Clone, Debug)]
pub struct ImportStmt {
    pub target: usize,
    pub form: Form,
    /// wrapped in try/catch inside the script
    pub in_try: bool,
    /// unique id (alias suffix, marker for the recorded value)
    pub id: u32,
    /// for the nested forms: the root module R whose export `sub` is module `target`
    pub via: usize,
    /// the statement is written in BOTH branches of an `if` whose condition is false: the one in
    /// the else branch runs (the same names are import targets twice in one scope, the first
    /// occurrence is never executed)
    pub in_else: bool,
}

#[derive(Clone, Debug)]
pub enum Step {
    Mark(u32),
    Import(ImportStmt),
    /// `export e<m>_<k> = v`
    Export(u32, i64),
    /// plain reassignment of an exported name after exporting it: must not alter the export
    Reassign(u32, i64),
    /// fault point
    Tick(u32),
    /// permanent failure
    Throw(u32),
    /// export a function that imports lazily when called (main script only)
    ExportLazy(ImportStmt),
    /// top-level assignment `t<k> = v` (top-level export mode)
    TopAssign(u32, i64),
    /// `t<k> += v` on an id that is already a local of the chunk
    TopAddAssign(u32, i64),
    /// `for i in 0..n` / `  t<k> += 1`: an accumulator in a top-level loop
    TopLoopAdd(u32, u32),
    /// `for t<k> in 10..30` / `  if t<k> == v` / `    break`: the loop variable is an id that was
    /// assigned (and exported) before; it is left with the value v
    TopForBreak(u32, i64),
    /// `export sub = mX` (after an `import mX`): a module-valued export
    ExportSub(usize),
    /// a use of the fixture module `mz` (see `FIXTURE_MODULE`), host scripts only; kind 0: an
    /// item named like the module imported before another item, 1: an export named like a core
    /// library item read as a non-local by the module's own function, 2: a renamed item followed
    /// by plain ones in one `from … import`
    Fixture(u32, u8),
    /// read another module's canary export by its bare name: visible only through a wildcard
    /// import of exactly that module (or in that module itself)
    ReadCanary(u32, usize),
}

#[derive(Clone, Debug, Default)]
pub struct ModuleDef {
    pub top: Vec<Step>,
    pub test: Option<Vec<Step>>,
    pub main: Option<Vec<Step>>,
}

#[derive(Clone, Copy, Debug, PartialEq, Eq, Hash)]
pub enum Disk {
    /// `mX.koto`
    File,
    /// `mX/main.koto`
    Dir,
    /// both: the file must win (the directory version exports different values)
    Both,
    Missing,
    /// a directory named `mX.koto`
    DirNamedLikeFile,
    InvalidUtf8,
    BrokenSyntax,
}

#[derive(Clone, Debug)]
pub struct World {
    pub modules: Vec<ModuleDef>,
    pub disk: Vec<Disk>,
    /// directory modules with a private helper file `mX/hX.koto`
    pub helper: Vec<bool>,
}

#[derive(Clone, Debug)]
pub enum HostOp {
    /// compile_and_run of a main script (with its own fault plan for this operation)
    Run { script: ModuleDef, export_top_level: bool, plan: BTreeMap<u32, ()> },
    /// call the lazily importing function exported by an earlier script
    CallLazy { id: u32, plan: BTreeMap<u32, ()> },
    /// rewrite a module's file in its healthy form
    Heal(usize),
    /// Koto::clear_module_cache
    ClearCache,
}

#[derive(Clone, Debug)]
pub struct Scenario {
    /// the importing script is reached through a symlink to the scratch directory (its path is
    /// not canonical): module identity must not depend on how a file's path is spelled
    pub via_symlink: bool,
    pub world: World,
    pub ops: Vec<HostOp>,
    pub run_import_tests: bool,
}

/// (root, leaf) pairs: module `root` exports module `leaf` as `sub`
fn world_subs(modules: &[ModuleDef]) -> Vec<(usize, usize)> {
    modules
        .iter()
        .enumerate()
        .filter_map(|(i, m)| {
            m.top.iter().find_map(|s| match s {
                Step::ExportSub(t) => Some((i, *t)),
                _ => None,
            })
        })
        .collect()
}

fn hname(i: usize) -> String {
    format!("h{}", (b'a' + i as u8) as char)
}

fn helper_def(m: usize) -> ModuleDef {
    ModuleDef {
        top: vec![Step::Mark(100 * (m as u32 + 1) + 70), Step::Export(7, 70 + m as i64)],
        test: None,
        main: None,
    }
}

/// A module outside the generated graph (never wildcard-imported, never part of a cycle): its
/// exports collide on purpose — with its own name and with names of the core library
pub const FIXTURE_MODULE: (&str, &str) = (
    "mz.koto",
    "rd = || (size, type, string, list)\nexport size = 41\nexport type = 42\nexport string = 43\nexport list = 44\nexport mz = 5\nexport ez_1 = 6\nexport ez_2 = 7\nexport ez_3 = 8\nexport rdv = rd()\nexport ma1, {mb1, mc1 as md1} = 1, {mb1: 2, mc1: 3}\nexport zsub = {zc: 12}\nexport lazy_v = ||\n  import mzh\n  mzh.v\nexport scaled = |n = 1| n * scale9\nexport scale9 = 10\n",
);
/// a module next to the fixture module that only the fixture's own function imports
pub const FIXTURE_HELPER: (&str, &str) = ("mzh.koto", "export v = 7\n");
/// two more fixture files: a module that re-exports wildcard-imported values in an export map
/// whose keys are named like the values they read, and one that exports a meta entry
pub const FIXTURE_EXTRA: &[(&str, &str)] = &[
    ("my.koto", "from mz import *\nexport\n  ez_1: ez_1\n  ez_9: ez_2 + 1\n"),
    ("mt.koto", "export @type = 'MT'\nexport x = 1\n"),
    // a directory module that counts its own executions (in a neighbour it imports), reached
    // under two spellings: by name from the script, as '../shd' from another directory module
    ("shd/main.koto", "import cnt\ncnt.c.push 1\nexport sv = size cnt.c\n"),
    ("shd/cnt.koto", "export c = []\n"),
    ("sbd/main.koto", "from '../shd' import sv\nexport sw = sv\n"),
];
/// what `Step::Fixture` records, by kind
pub const FIXTURE_VALUES: &[&str] = &["6", "(41, 42, 43, 44)", "60708", "(1, 2, 3)", "7", "12", "(6, 8)", "('MT', 'MT')", "20", "(1, 1)"];

fn mname(i: usize) -> String {
    format!("m{}", (b'a' + i as u8) as char)
}

fn ename(module: usize, k: u32) -> String {
    if module == usize::MAX {
        // the host's own script
        format!("h{k}")
    } else {
        format!("e{}_{k}", (b'a' + module as u8) as char)
    }
}

// ---------------------------------------------------------------------------------------------
// Rendering

fn render_import(out: &mut Vec<String>, indent: usize, s: &ImportStmt, exported_item: Option<u32>) {
    let pad = "  ".repeat(indent);
    let m = mname(s.target);
    let item = exported_item.map(|k| ename(s.target, k));
    let mut lines = vec![];
    match (s.form, &item) {
        (Form::Plain, Some(item)) => {
            lines.push(format!("import {m}"));
            lines.push(format!("val({}, {m}.{item})", s.id));
        }
        (Form::Plain, None) => {
            lines.push(format!("import {m}"));
            lines.push(format!("val({}, 0)", s.id));
        }
        (Form::As, Some(item)) => {
            lines.push(format!("import {m} as q{}", s.id));
            lines.push(format!("val({}, q{}.{item})", s.id, s.id));
        }
        (Form::As, None) => {
            lines.push(format!("import {m} as q{}", s.id));
            lines.push(format!("val({}, 0)", s.id));
        }
        (Form::FromItem, Some(item)) => {
            lines.push(format!("from {m} import {item}"));
            lines.push(format!("val({}, {item})", s.id));
        }
        (Form::FromItemAs, Some(item)) => {
            lines.push(format!("from {m} import {item} as q{}", s.id));
            lines.push(format!("val({}, q{})", s.id, s.id));
        }
        (Form::Wildcard, Some(item)) => {
            lines.push(format!("from {m} import *"));
            lines.push(format!("val({}, {item})", s.id));
        }
        (Form::MissingItem, _) => {
            lines.push(format!("from {m} import nosuchitem"));
            lines.push(format!("val({}, 0)", s.id));
        }
        (Form::NestedItem, Some(item)) => {
            lines.push(format!("from {}.sub import {item} as q{}", mname(s.via), s.id));
            lines.push(format!("val({}, q{})", s.id, s.id));
        }
        (Form::NestedWildcard, Some(item)) => {
            lines.push(format!("from {}.sub import *", mname(s.via)));
            lines.push(format!("val({}, {item})", s.id));
        }
        (Form::HelperInside, _) => {
            let h = hname(s.target);
            lines.push(format!("import {h}"));
            lines.push(format!("val({}, {h}.{})", s.id, ename(s.target, 7)));
        }
        (Form::HelperByPath, _) => {
            lines.push(format!("import '{}/{}' as q{}", mname(s.target), hname(s.target), s.id));
            lines.push(format!("val({}, q{}.{})", s.id, s.id, ename(s.target, 7)));
        }
        (_, None) => {
            lines.push(format!("import {m}"));
            lines.push(format!("val({}, 0)", s.id));
        }
    }
    let mut body = vec![];
    if s.in_try {
        body.push("try".to_string());
        for l in lines {
            body.push(format!("  {l}"));
        }
        body.push("catch e".to_string());
        body.push(format!("  caught({}, e)", s.id));
    } else {
        body = lines;
    }
    if s.in_else {
        out.push(format!("{pad}if 0 > 1"));
        for l in &body {
            out.push(format!("{pad}  {l}"));
        }
        out.push(format!("{pad}else"));
        for l in &body {
            out.push(format!("{pad}  {l}"));
        }
    } else {
        for l in body {
            out.push(format!("{pad}{l}"));
        }
    }
}

/// first exported item of a module's healthy definition (what importers read)
fn first_export(w: &World, module: usize) -> Option<u32> {
    w.modules[module].top.iter().find_map(|s| match s {
        Step::Export(k, _) => Some(*k),
        _ => None,
    })
}

fn render_steps(out: &mut Vec<String>, indent: usize, steps: &[Step], module: usize, w: &World) {
    let pad = "  ".repeat(indent);
    for s in steps {
        match s {
            Step::Mark(n) => out.push(format!("{pad}mark({n})")),
            Step::Import(i) => render_import(out, indent, i, first_export(w, i.target)),
            Step::Export(k, v) => out.push(format!("{pad}export {} = {v}", ename(module, *k))),
            Step::Reassign(k, v) => out.push(format!("{pad}{} = {v}", ename(module, *k))),
            Step::Tick(id) => out.push(format!("{pad}tick({id})")),
            Step::Throw(n) => out.push(format!("{pad}throw 'F{n}'")),
            Step::ExportLazy(i) => {
                out.push(format!("{pad}export lazy{} = ||", i.id));
                render_import(out, indent + 1, i, first_export(w, i.target));
                out.push(format!("{pad}  return {}", i.id));
            }
            Step::TopAssign(k, v) => out.push(format!("{pad}t{k} = {v}")),
            Step::TopAddAssign(k, v) => out.push(format!("{pad}t{k} += {v}")),
            Step::TopLoopAdd(k, n) => {
                out.push(format!("{pad}for i in 0..{n}"));
                out.push(format!("{pad}  t{k} += 1"));
            }
            Step::TopForBreak(k, v) => {
                out.push(format!("{pad}for t{k} in 10..30"));
                out.push(format!("{pad}  if t{k} == {v}"));
                out.push(format!("{pad}    break"));
            }
            Step::ExportSub(t) => out.push(format!("{pad}export sub = {}", mname(*t))),
            Step::Fixture(id, kind) => match kind {
                0 => {
                    out.push(format!("{pad}fs{id} = ||"));
                    out.push(format!("{pad}  import mz"));
                    out.push(format!("{pad}  from mz import mz, ez_1"));
                    out.push(format!("{pad}  return ez_1"));
                    out.push(format!("{pad}val({id}, fs{id}())"));
                }
                1 => {
                    out.push(format!("{pad}import mz as qz{id}"));
                    out.push(format!("{pad}val({id}, qz{id}.rdv)"));
                }
                2 => {
                    out.push(format!("{pad}fm{id} = ||"));
                    out.push(format!("{pad}  from mz import ez_1 as qz{id}, ez_2, ez_3"));
                    out.push(format!("{pad}  return qz{id} * 10000 + ez_2 * 100 + ez_3"));
                    out.push(format!("{pad}val({id}, fm{id}())"));
                }
                3 => {
                    // an exported multi-assignment with a nested map pattern among its targets
                    out.push(format!("{pad}import mz as qz{id}"));
                    out.push(format!("{pad}val({id}, (qz{id}.ma1, qz{id}.mb1, qz{id}.md1))"));
                }
                4 => {
                    // the fixture's function imports its neighbour `mzh` lazily, while THIS script
                    // exports something else under that name: names are looked up in the scope
                    // of the module that contains the import
                    out.push(format!("{pad}export mzh = 99"));
                    out.push(format!("{pad}import mz as qz{id}"));
                    out.push(format!("{pad}val({id}, qz{id}.lazy_v())"));
                }
                6 => {
                    out.push(format!("{pad}import my as qy{id}"));
                    out.push(format!("{pad}val({id}, (qy{id}.ez_1, qy{id}.ez_9))"));
                }
                8 => {
                    // a function with an optional argument whose only non-local is an export
                    // made AFTER the function
                    out.push(format!("{pad}import mz as qz{id}"));
                    out.push(format!("{pad}val({id}, qz{id}.scaled(2))"));
                }
                9 => {
                    // one directory module under two spellings runs once
                    out.push(format!("{pad}import shd as qs{id}"));
                    out.push(format!("{pad}import sbd as qt{id}"));
                    out.push(format!("{pad}val({id}, (qs{id}.sv, qt{id}.sw))"));
                }
                7 => {
                    // a module with a meta entry, imported twice: both handles see it
                    out.push(format!("{pad}import mt as qa{id}"));
                    out.push(format!("{pad}ft{id} = ||"));
                    out.push(format!("{pad}  import mt as qb{id}"));
                    out.push(format!("{pad}  return type qb{id}"));
                    out.push(format!("{pad}val({id}, (type qa{id}, ft{id}()))"));
                }
                _ => {
                    // importing from a name that a wildcard import made visible
                    out.push(format!("{pad}fw{id} = ||"));
                    out.push(format!("{pad}  from mz import *"));
                    out.push(format!("{pad}  from zsub import zc"));
                    out.push(format!("{pad}  return zc"));
                    out.push(format!("{pad}val({id}, fw{id}())"));
                }
            },
            Step::ReadCanary(id, r) => {
                out.push(format!("{pad}c{id} = try"));
                out.push(format!("{pad}  {}", ename(*r, 9)));
                out.push(format!("{pad}catch e"));
                out.push(format!("{pad}  -1"));
                out.push(format!("{pad}val({id}, c{id})"));
            }
        }
    }
    if steps.is_empty() {
        out.push(format!("{pad}null"));
    }
}

pub fn render_module(def: &ModuleDef, module: usize, w: &World) -> String {
    let mut out = vec![];
    render_steps(&mut out, 0, &def.top, module, w);
    if let Some(t) = &def.test {
        out.push(format!("@test t{module} = ||"));
        render_steps(&mut out, 1, t, module, w);
    }
    if let Some(m) = &def.main {
        out.push("@main = ||".to_string());
        render_steps(&mut out, 1, m, module, w);
    }
    out.join("\n") + "\n"
}

/// The healthy (healed) form of a module: same exports and markers, no faults, no imports of
/// modules that may be broken is NOT guaranteed - only the module's own permanent failure and
/// fault points are removed.
pub fn healed(def: &ModuleDef) -> ModuleDef {
    let clean = |steps: &Vec<Step>| -> Vec<Step> {
        steps
            .iter()
            .filter(|s| !matches!(s, Step::Throw(_) | Step::Tick(_)))
            .cloned()
            .collect()
    };
    ModuleDef {
        top: clean(&def.top),
        test: def.test.as_ref().map(clean),
        main: def.main.as_ref().map(clean),
    }
}

/// The variant placed in `mX/main.koto` when both forms exist: exports 1000 + v so that picking
/// the directory over the file is visible
fn dir_variant(def: &ModuleDef) -> ModuleDef {
    let bump = |steps: &Vec<Step>| -> Vec<Step> {
        steps
            .iter()
            .map(|s| match s {
                Step::Export(k, v) => Step::Export(*k, 1000 + v),
                Step::Mark(n) => Step::Mark(n + 5000),
                other => other.clone(),
            })
            .collect()
    };
    ModuleDef {
        top: bump(&def.top),
        test: def.test.as_ref().map(bump),
        main: def.main.as_ref().map(bump),
    }
}

/// a symlink next to the scratch directory that points to it
pub fn link_path(scratch: &Scratch) -> std::path::PathBuf {
    let mut p = scratch.dir.clone().into_os_string();
    p.push("-link");
    std::path::PathBuf::from(p)
}

fn ensure_link(scratch: &Scratch) {
    let link = link_path(scratch);
    if std::fs::symlink_metadata(&link).is_err() {
        let _ = std::os::unix::fs::symlink(&scratch.dir, &link);
    }
}

pub fn write_world(w: &World, scratch: &Scratch) {
    scratch.clear();
    ensure_link(scratch);
    std::fs::write(scratch.dir.join("main.koto"), "# importing script\n").expect("write");
    std::fs::write(scratch.dir.join(FIXTURE_MODULE.0), FIXTURE_MODULE.1).expect("write");
    std::fs::write(scratch.dir.join(FIXTURE_HELPER.0), FIXTURE_HELPER.1).expect("write");
    for (name, text) in FIXTURE_EXTRA {
        if let Some(parent) = scratch.dir.join(name).parent() {
            std::fs::create_dir_all(parent).expect("mkdir");
        }
        std::fs::write(scratch.dir.join(name), text).expect("write");
    }
    for i in 0..w.modules.len() {
        write_module(w, i, w.disk[i], scratch);
    }
}

fn write_helper(w: &World, i: usize, scratch: &Scratch) {
    if w.helper[i] && w.disk[i] == Disk::Dir {
        let dir = scratch.dir.join(mname(i));
        let _ = std::fs::create_dir_all(&dir);
        std::fs::write(
            dir.join(format!("{}.koto", hname(i))),
            render_module(&helper_def(i), i, w),
        )
        .expect("write helper");
    }
}

fn write_module(w: &World, i: usize, disk: Disk, scratch: &Scratch) {
    let name = mname(i);
    let file = scratch.dir.join(format!("{name}.koto"));
    let dir = scratch.dir.join(&name);
    let _ = std::fs::remove_file(&file);
    let _ = std::fs::remove_dir_all(&file);
    let _ = std::fs::remove_dir_all(&dir);
    let text = render_module(&w.modules[i], i, w);
    match disk {
        Disk::File => std::fs::write(&file, text).expect("write"),
        Disk::Dir => {
            std::fs::create_dir_all(&dir).expect("mkdir");
            std::fs::write(dir.join("main.koto"), text).expect("write");
        }
        Disk::Both => {
            std::fs::write(&file, text).expect("write");
            std::fs::create_dir_all(&dir).expect("mkdir");
            std::fs::write(
                dir.join("main.koto"),
                render_module(&dir_variant(&w.modules[i]), i, w),
            )
            .expect("write");
        }
        Disk::Missing => {}
        Disk::DirNamedLikeFile => std::fs::create_dir_all(&file).expect("mkdir"),
        Disk::InvalidUtf8 => std::fs::write(&file, b"export x = 1\n\xff\xfe\n").expect("write"),
        Disk::BrokenSyntax => std::fs::write(&file, "export x = (1 +\n").expect("write"),
    }
    write_helper(w, i, scratch);
}

// ---------------------------------------------------------------------------------------------
// Generation

pub fn gen_scenario(seed: u64) -> Scenario {
    let mut k = Rng::fork(seed, "knobs");
    let mut r = Rng::fork(seed, "scenario");
    let mut fr = Rng::fork(seed, "faults");
    let n = r.range(2, 6) as usize;
    let allow_cycles = k.chance(1, 3);
    let run_import_tests = k.chance(2, 3);
    let mut next_id = 0u32;
    let mut next_tick = 0u32;
    let mut id = || {
        next_id += 1;
        next_id
    };
    let forms = [
        Form::Plain,
        Form::Plain,
        Form::As,
        Form::FromItem,
        Form::FromItemAs,
        Form::Wildcard,
    ];
    let mut modules = vec![];
    for m in 0..n {
        let mut top = vec![Step::Mark(100 * (m as u32 + 1) + 1)];
        // imports: to later modules (DAG) or, with cycles allowed, to any other module
        let nimports = r.below(3);
        for _ in 0..nimports {
            let target = if allow_cycles && r.chance(1, 3) {
                r.usize_below(n)
            } else if m + 1 < n {
                m + 1 + r.usize_below(n - m - 1)
            } else {
                continue;
            };
            if target == m && !allow_cycles {
                continue;
            }
            let mut form = *r.pick(&forms);
            if form == Form::Wildcard
                && top.iter().any(|s| matches!(s, Step::Import(i) if i.target == target && i.form == Form::FromItem))
            {
                form = Form::Plain;
            }
            top.push(Step::Import(ImportStmt {
                target,
                form,
                in_try: r.chance(1, 5),
                id: id(),
                via: 0,
                in_else: false,
            }));
        }
        top.push(Step::Export(1, 10 * (m as i64 + 1) + 1));
        // the canary: never imported by name, only reachable through a wildcard import
        top.push(Step::Export(9, 900 + m as i64));

        if r.chance(1, 3) {
            top.push(Step::Reassign(1, 777));
        }
        // a module-valued export (for nested import paths): `import mX` + `export sub = mX`
        if m + 1 < n && r.chance(1, 3) {
            let t = m + 1 + r.usize_below(n - m - 1);
            top.push(Step::Import(ImportStmt { target: t, form: Form::Plain, in_try: false, id: id(), via: 0, in_else: false }));
            top.push(Step::ExportSub(t));
        }
        if r.chance(1, 4) {
            top.push(Step::ReadCanary(id(), r.usize_below(n)));
        }
        if r.chance(1, 2) {
            top.push(Step::Export(2, 10 * (m as i64 + 1) + 2));
        }
        top.push(Step::Mark(100 * (m as u32 + 1) + 2));
        let test = if r.chance(1, 2) {
            Some(vec![Step::Mark(100 * (m as u32 + 1) + 50)])
        } else {
            None
        };
        let main = if r.chance(1, 2) {
            Some(vec![Step::Mark(100 * (m as u32 + 1) + 90)])
        } else {
            None
        };
        // imports inside the module's @test / @main functions: they run while the module is
        // still being imported (a cycle closed from there is a cycle; a failure there fails
        // the import as a whole)
        let mut test = test;
        let mut main = main;
        for steps in [test.as_mut(), main.as_mut()].into_iter().flatten() {
            if r.chance(1, 4) {
                let target = if allow_cycles && r.chance(1, 2) {
                    r.usize_below(n)
                } else if m + 1 < n {
                    m + 1 + r.usize_below(n - m - 1)
                } else {
                    continue;
                };
                if target == m && !allow_cycles {
                    continue;
                }
                steps.push(Step::Import(ImportStmt {
                    target,
                    form: *r.pick(&[Form::Plain, Form::As, Form::FromItem, Form::FromItemAs]),
                    in_try: r.chance(1, 4),
                    id: id(),
                    via: 0,
                    in_else: false,
                }));
            }
        }
        modules.push(ModuleDef { top, test, main });
    }
    // faults at modules: fault points (transient, driven by the per-operation plan) and
    // permanent failures, placed at top level / test / main
    let mut disk = vec![Disk::File; n];
    for m in 0..n {
        disk[m] = *r.pick_weighted(&[(6, Disk::File), (2, Disk::Dir), (2, Disk::Both)]);
        let place = |steps: &mut Vec<Step>, s: Step, r: &mut Rng| {
            let at = r.usize_below(steps.len() + 1);
            steps.insert(at, s);
        };
        if fr.chance(1, 2) {
            next_tick += 1;
            let s = Step::Tick(next_tick);
            match fr.below(3) {
                0 => place(&mut modules[m].top, s, &mut fr),
                1 => match modules[m].test.as_mut() {
                    Some(t) => place(t, s, &mut fr),
                    None => place(&mut modules[m].top, s, &mut fr),
                },
                _ => match modules[m].main.as_mut() {
                    Some(t) => place(t, s, &mut fr),
                    None => place(&mut modules[m].top, s, &mut fr),
                },
            }
        }
        if fr.chance(1, 6) {
            let s = Step::Throw(m as u32 + 1);
            match fr.below(3) {
                0 => place(&mut modules[m].top, s, &mut fr),
                1 => match modules[m].test.as_mut() {
                    Some(t) => place(t, s, &mut fr),
                    None => place(&mut modules[m].top, s, &mut fr),
                },
                _ => match modules[m].main.as_mut() {
                    Some(t) => place(t, s, &mut fr),
                    None => place(&mut modules[m].top, s, &mut fr),
                },
            }
        }
        if fr.chance(1, 8) {
            disk[m] = *fr.pick(&[
                Disk::Missing,
                Disk::DirNamedLikeFile,
                Disk::InvalidUtf8,
                Disk::BrokenSyntax,
            ]);
        }
    }
    // private helper files of directory modules, imported from inside and (by path) from outside
    let mut helper = vec![false; n];
    for m in 0..n {
        if disk[m] == Disk::Dir && r.chance(1, 2) {
            helper[m] = true;
            let at = 1 + r.usize_below(modules[m].top.len());
            modules[m].top.insert(
                at,
                Step::Import(ImportStmt { target: m, form: Form::HelperInside, in_try: false, id: id(), via: 0, in_else: false }),
            );
        }
    }
    let via_symlink = k.chance(1, 3);
    let world = World { modules: modules.clone(), disk, helper };

    // the host history
    let nops = r.range(2, 7) as usize;
    let mut ops = vec![];
    let mut lazies: Vec<u32> = vec![];
    for _ in 0..nops {
        let c = r.below(10);
        match c {
            0..=5 => {
                // a main script importing a subset in some order
                let mut top = vec![Step::Mark(9000 + ops.len() as u32)];
                let export_top_level = r.chance(1, 4);
                let nimp = r.range(1, 4);
                let mut from_item_targets: Vec<usize> = vec![];
                for _ in 0..nimp {
                    let target = r.usize_below(n);
                    let mut form = if r.chance(1, 10) {
                        Form::MissingItem
                    } else {
                        *r.pick(&forms)
                    };
                    // `from m import item` declares a local named `item` (even when the import
                    // fails); a later `from m import *` in the same scope is shadowed by it.
                    // That is the language's scoping rule, not the module system: avoid it.
                    if form == Form::Wildcard && from_item_targets.contains(&target) {
                        form = Form::Plain;
                    }
                    if form == Form::FromItem {
                        from_item_targets.push(target);
                    }
                    let mut stmt = ImportStmt {
                        target,
                        form,
                        in_try: r.chance(2, 5),
                        id: id(),
                        via: 0,
                        in_else: r.chance(1, 6),
                    };
                    // nested import paths through a module-valued export
                    if r.chance(1, 4) {
                        let roots: Vec<(usize, usize)> = world_subs(&modules);
                        if !roots.is_empty() {
                            let (root, leaf) = *r.pick(&roots);
                            stmt.via = root;
                            stmt.target = leaf;
                            stmt.form = if r.chance(1, 2) || from_item_targets.contains(&leaf) {
                                Form::NestedItem
                            } else {
                                Form::NestedWildcard
                            };
                        }
                    }
                    if stmt.form == Form::FromItem && !from_item_targets.contains(&stmt.target) {
                        from_item_targets.push(stmt.target);
                    }
                    // the helper file of a directory module, by path
                    if r.chance(1, 4) {
                        let hs: Vec<usize> = (0..n).filter(|m| world.helper[*m]).collect();
                        if !hs.is_empty() {
                            stmt.target = *r.pick(&hs);
                            stmt.form = Form::HelperByPath;
                            stmt.via = 0;
                        }
                    }
                    if r.chance(1, 6) {
                        lazies.push(stmt.id);
                        let stmt = ImportStmt {
                            form: match stmt.form {
                                Form::HelperByPath => Form::HelperByPath,
                                Form::Wildcard => Form::Plain,
                                Form::NestedWildcard => Form::NestedItem,
                                f => f,
                            },
                            ..stmt
                        };
                        top.push(Step::ExportLazy(stmt));
                    } else {
                        // sometimes the same module twice in the same scope (retry after failure)
                        if r.chance(1, 5) {
                            let again = ImportStmt { id: id(), ..stmt.clone() };
                            top.push(Step::Import(stmt));
                            top.push(Step::Import(again));
                        } else {
                            top.push(Step::Import(stmt));
                        }
                    }
                }
                for _ in 0..r.below(3) {
                    let at = 1 + r.usize_below(top.len());
                    top.insert(at, Step::ReadCanary(id(), r.usize_below(n)));
                }
                if r.chance(1, 4) {
                    let at = 1 + r.usize_below(top.len());
                    top.insert(at, Step::Fixture(id(), r.below(10) as u8));
                }
                if export_top_level {
                    top.push(Step::TopAssign(1, 5));
                    top.push(Step::TopAssign(2, 6));
                    top.push(Step::TopAssign(1, 7));
                    if r.chance(1, 2) {
                        top.push(Step::TopAddAssign(2, 10));
                    }
                    if r.chance(1, 2) {
                        top.push(Step::TopLoopAdd(1, r.range(1, 3) as u32));
                    }
                    if r.chance(1, 3) {
                        top.push(Step::TopForBreak(2, r.irange(11, 25)));
                    }
                } else if r.chance(1, 2) {
                    top.push(Step::Export(1, 500 + ops.len() as i64));
                    if r.chance(1, 2) {
                        top.push(Step::Reassign(1, 888));
                    }
                }
                top.push(Step::Mark(9500 + ops.len() as u32));
                ops.push(HostOp::Run {
                    script: ModuleDef {
                        top,
                        test: None,
                        main: None,
                    },
                    export_top_level,
                    plan: BTreeMap::new(),
                });
            }
            6 if !lazies.is_empty() => ops.push(HostOp::CallLazy {
                id: *r.pick(&lazies),
                plan: BTreeMap::new(),
            }),
            7..=8 => {
                ops.push(HostOp::Heal(r.usize_below(n)));
                if r.chance(1, 2) {
                    ops.push(HostOp::ClearCache);
                }
            }
            _ => ops.push(HostOp::ClearCache),
        }
    }
    // fault plans: transient faults at the first fault points an operation meets
    for op in ops.iter_mut() {
        if let HostOp::Run { plan, .. } | HostOp::CallLazy { plan, .. } = op
            && fr.chance(1, 2)
        {
            plan.insert(1 + fr.below(3) as u32, ());
            if fr.chance(1, 4) {
                plan.insert(1 + fr.below(5) as u32, ());
            }
        }
    }
    Scenario {
        via_symlink,
        world,
        ops,
        run_import_tests,
    }
}

// ---------------------------------------------------------------------------------------------
// Reference model of the documented contract

#[derive(Clone, Debug, PartialEq)]
pub enum ErrClass {
    /// thrown string / tick failure: exact first line
    Exact(String),
    Cycle,
    NotFound,
    ReadError,
    CompileError,
    MissingItem,
}

#[derive(Clone, Debug, Default, PartialEq)]
pub struct OpPrediction {
    pub markers: Vec<u32>,
    /// (import id, rendered bound value)
    pub vals: Vec<(u32, String)>,
    /// (import id, error class) for imports that failed inside try/catch
    pub caught: Vec<(u32, ErrClass)>,
    pub result: Option<Result<(), ErrClass>>,
    /// the host-visible exports after the operation (int-valued entries, in order)
    pub exports: Vec<(String, i64)>,
    pub ticks: u32,
    pub fired: u32,
}

type Exports = Vec<(String, i64)>;

pub struct ModelState {
    /// what the loader compiled for a path: the module definition (by value) it read
    loader: BTreeMap<String, ModuleDef>,
    /// completed modules
    cache: BTreeMap<String, Exports>,
    in_progress: Vec<String>,
    /// current definitions on disk (after healing)
    pub world: World,
    /// the host's exports map (persists across runs)
    pub host_exports: Exports,
    /// lazily importing functions exported by earlier scripts: id -> (stmt, wildcard scope)
    lazies: BTreeMap<u32, ImportStmt>,
    run_import_tests: bool,
    /// modules whose name was exported to the host by a script in top-level export mode: later
    /// host-scope imports of that name find the exported value first (documented REPL
    /// behaviour: exports persist and are searched before the disk)
    host_bound_modules: BTreeMap<usize, Exports>,
    /// per scope (host script or module being run): export sets made visible by wildcard imports
    wild_stack: Vec<Vec<Exports>>,
    /// names that wildcard imports exported into the host's exports map in top-level export mode
    host_wild_exports: Exports,
    pub gap: Option<String>,
    pub sig: Vec<String>,
}

struct RunCtx<'a> {
    out: &'a mut OpPrediction,
    plan: &'a BTreeMap<u32, ()>,
    /// the host script is compiled with export_top_level_ids: top-level bindings are exported
    export_top_level: bool,
    /// int-valued bindings created by imports at the top level of the host script
    top_level_bindings: Vec<(String, i64)>,
}

impl ModelState {
    pub fn new(sc: &Scenario) -> Self {
        Self {
            loader: BTreeMap::new(),
            cache: BTreeMap::new(),
            in_progress: vec![],
            world: sc.world.clone(),
            host_exports: vec![],
            lazies: BTreeMap::new(),
            run_import_tests: sc.run_import_tests,
            host_bound_modules: BTreeMap::new(),
            wild_stack: vec![vec![]],
            host_wild_exports: vec![],
            gap: None,
            sig: vec![],
        }
    }

    /// resolution: `name.koto` before `name/main.koto`, relative to the importing file.
    /// Everything lives in the scratch root, so an importer that was itself loaded from
    /// `x/main.koto` searches `x/`, where nothing can be found.
    fn resolve(&self, m: usize) -> Result<(String, ModuleDef), ErrClass> {
        if let Some(importer) = self.in_progress.last()
            && importer.ends_with("/main.koto")
        {
            return Err(ErrClass::NotFound);
        }
        let name = mname(m);
        let def = &self.world.modules[m];
        match self.world.disk[m] {
            Disk::File | Disk::Both => Ok((format!("{name}.koto"), def.clone())),
            Disk::Dir => Ok((format!("{name}/main.koto"), def.clone())),
            Disk::Missing => Err(ErrClass::NotFound),
            Disk::DirNamedLikeFile | Disk::InvalidUtf8 => Err(ErrClass::ReadError),
            Disk::BrokenSyntax => Err(ErrClass::CompileError),
        }
    }

    fn import(&mut self, m: usize, cx: &mut RunCtx) -> Result<Exports, ErrClass> {
        if self.in_progress.is_empty()
            && let Some(e) = self.host_bound_modules.get(&m)
        {
            self.sig.push("found-in-host-exports".into());
            return Ok(e.clone());
        }
        let (path, disk_def) = match self.resolve(m) {
            Ok(x) => x,
            Err(ErrClass::NotFound) => return Err(ErrClass::NotFound),
            Err(e) => {
                // the path exists; a chunk compiled earlier (before the file went bad) would
                // still be used - the generator never breaks a file after it was loaded
                return Err(e);
            }
        };
        self.load(path, disk_def, m, cx)
    }

    /// the private helper file of directory module `m`: `mX/hX.koto`, whichever way it is named
    fn import_helper(&mut self, m: usize, form: Form, cx: &mut RunCtx) -> Result<Exports, ErrClass> {
        let path = format!("{}/{}.koto", mname(m), hname(m));
        let exists = self.world.helper[m] && self.world.disk[m] == Disk::Dir;
        let importer = self.in_progress.last().cloned();
        let reachable = match form {
            // `import hX`: only from the directory module's own main file
            Form::HelperInside => importer.as_deref() == Some(&format!("{}/main.koto", mname(m))),
            // `import 'mX/hX'`: from any file in the root directory (host script included)
            _ => importer.is_none_or(|p| !p.contains('/')),
        };
        if !exists || !reachable {
            return Err(ErrClass::NotFound);
        }
        self.load(path, helper_def(m), m, cx)
    }

    /// run-once / cache / cycle / rollback for one resolved file
    fn load(&mut self, path: String, disk_def: ModuleDef, m: usize, cx: &mut RunCtx) -> Result<Exports, ErrClass> {
        let (def, loaded_from_cache) = match self.loader.get(&path) {
            Some(d) => (d.clone(), true),
            None => {
                self.loader.insert(path.clone(), disk_def.clone());
                (disk_def, false)
            }
        };
        if self.in_progress.contains(&path) {
            self.sig.push("cycle".into());
            return Err(ErrClass::Cycle);
        }
        if loaded_from_cache && let Some(e) = self.cache.get(&path) {
            self.sig.push("cache-hit".into());
            return Ok(e.clone());
        }
        self.in_progress.push(path.clone());
        self.wild_stack.push(vec![]);
        let mut exports: Exports = vec![];
        let r = (|| -> Result<(), ErrClass> {
            self.run_steps(&def.top, m, &mut exports, cx)?;
            if self.run_import_tests && let Some(t) = &def.test {
                self.run_steps(t, m, &mut exports, cx)?;
            }
            if let Some(mn) = &def.main {
                self.run_steps(mn, m, &mut exports, cx)?;
            }
            Ok(())
        })();
        self.in_progress.pop();
        self.wild_stack.pop();
        match r {
            Ok(()) => {
                self.cache.insert(path, exports.clone());
                self.sig.push("module-completed".into());
                Ok(exports)
            }
            Err(e) => {
                // a failed import leaves nothing behind
                self.cache.remove(&path);
                self.sig.push(format!("module-failed:{e:?}").chars().take(24).collect());
                Err(e)
            }
        }
    }

    fn run_import_stmt(
        &mut self,
        s: &ImportStmt,
        cx: &mut RunCtx,
    ) -> Result<(), ErrClass> {
        let r = (|| -> Result<String, ErrClass> {
            let nested = matches!(s.form, Form::NestedItem | Form::NestedWildcard);
            let exports = if nested {
                // import the root, then read its module-valued export `sub`
                let root = self.import(s.via, cx)?;
                let prefix = "sub/";
                let sub: Exports = root
                    .iter()
                    .filter_map(|(n, v)| n.strip_prefix(prefix).map(|x| (x.to_string(), *v)))
                    .collect();
                if !root.iter().any(|(n, _)| n == "sub") {
                    // the root (in the version that was loaded) has no `sub` export
                    return Err(ErrClass::MissingItem);
                }
                sub
            } else if matches!(s.form, Form::HelperInside | Form::HelperByPath) {
                self.import_helper(s.target, s.form, cx)?
            } else {
                self.import(s.target, cx)?
            };
            if matches!(s.form, Form::Wildcard | Form::NestedWildcard) {
                self.wild_stack.last_mut().unwrap().push(exports.clone());
                if cx.export_top_level && self.in_progress.is_empty() {
                    for (n, v) in &exports {
                        if !n.contains('/') && n != "sub" {
                            if let Some(e) = self.host_wild_exports.iter_mut().find(|(k, _)| k == n) {
                                e.1 = *v;
                            } else {
                                self.host_wild_exports.push((n.clone(), *v));
                            }
                        }
                    }
                }
            }
            if cx.export_top_level
                && self.in_progress.is_empty()
                && matches!(s.form, Form::Plain | Form::As)
            {
                self.host_bound_modules.entry(s.target).or_insert_with(|| exports.clone());
            }
            if s.form == Form::MissingItem {
                return Err(ErrClass::MissingItem);
            }
            // the value recorded by `val(id, …)`: the first export of the target's healthy form
            let item = if matches!(s.form, Form::HelperInside | Form::HelperByPath) {
                Some(ename(s.target, 7))
            } else {
                first_export(&self.world, s.target).map(|k| ename(s.target, k))
            };
            Ok(match item {
                Some(item) => match exports.iter().find(|(n, _)| *n == item) {
                    Some((_, v)) => v.to_string(),
                    None => {
                        self.gap = Some(format!("export {item} missing in model"));
                        String::new()
                    }
                },
                None => "0".to_string(),
            })
        })();
        match r {
            Ok(v) => {
                cx.out.vals.push((s.id, v));
                Ok(())
            }
            Err(e) => {
                if s.in_try {
                    cx.out.caught.push((s.id, e));
                    self.sig.push("import-failure-caught-in-script".into());
                    Ok(())
                } else {
                    Err(e)
                }
            }
        }
    }

    fn run_steps(
        &mut self,
        steps: &[Step],
        module: usize,
        exports: &mut Exports,
        cx: &mut RunCtx,
    ) -> Result<(), ErrClass> {
        for s in steps {
            match s {
                Step::Mark(n) => cx.out.markers.push(*n),
                Step::Import(i) => self.run_import_stmt(i, cx)?,
                Step::Export(k, v) => {
                    let name = ename(module, *k);
                    if let Some(e) = exports.iter_mut().find(|(n, _)| *n == name) {
                        e.1 = *v;
                    } else {
                        exports.push((name, *v));
                    }
                }
                Step::Reassign(_, _) => {}
                Step::Tick(id) => {
                    cx.out.ticks += 1;
                    if cx.plan.contains_key(&cx.out.ticks) {
                        cx.out.fired += 1;
                        return Err(ErrClass::Exact(format!("tickfail {id}")));
                    }
                }
                Step::Throw(n) => return Err(ErrClass::Exact(format!("F{n}"))),
                Step::ExportLazy(i) => {
                    self.lazies.insert(i.id, i.clone());
                }
                Step::Fixture(id, kind) => {
                    cx.out.vals.push((*id, FIXTURE_VALUES[*kind as usize].to_string()));
                }
                Step::TopAssign(k, v) if cx.export_top_level => {
                    let name = format!("t{k}");
                    if let Some(e) = exports.iter_mut().find(|(n, _)| *n == name) {
                        e.1 = *v;
                    } else {
                        exports.push((name, *v));
                    }
                }
                Step::TopAssign(..) => {}
                Step::TopAddAssign(k, v) => {
                    if cx.export_top_level
                        && let Some(e) = exports.iter_mut().find(|(n, _)| *n == format!("t{k}"))
                    {
                        e.1 += *v;
                    }
                }
                Step::TopLoopAdd(k, n) => {
                    if cx.export_top_level
                        && let Some(e) = exports.iter_mut().find(|(n2, _)| *n2 == format!("t{k}"))
                    {
                        e.1 += *n as i64;
                    }
                }
                Step::TopForBreak(k, v) => {
                    if cx.export_top_level
                        && let Some(e) = exports.iter_mut().find(|(n2, _)| *n2 == format!("t{k}"))
                    {
                        e.1 = *v;
                    }
                }
                Step::ExportSub(t) => {
                    // the module was imported by the preceding step: its completed exports
                    let path_exports: Option<Exports> = self
                        .resolve_quiet(*t)
                        .and_then(|p| self.cache.get(&p).cloned());
                    let Some(sub) = path_exports else {
                        self.gap = Some("ExportSub of a module that is not cached".into());
                        return Ok(());
                    };
                    exports.retain(|(n, _)| n != "sub" && !n.starts_with("sub/"));
                    exports.push(("sub".into(), 0));
                    for (n, v) in sub {
                        if !n.contains('/') && n != "sub" {
                            exports.push((format!("sub/{n}"), v));
                        }
                    }
                }
                Step::ReadCanary(id, r) => {
                    let name = ename(*r, 9);
                    // lookup order of a non-local: wildcard imports of this scope (most recent
                    // first), then the scope's own exports
                    let mut v: Option<i64> = None;
                    for w in self.wild_stack.last().unwrap().iter().rev() {
                        if let Some((_, x)) = w.iter().find(|(n, _)| *n == name) {
                            v = Some(*x);
                            break;
                        }
                    }
                    if v.is_none() {
                        v = exports.iter().find(|(n, _)| *n == name).map(|e| e.1);
                    }
                    if v.is_none() && module == usize::MAX {
                        v = self.host_wild_exports.iter().find(|(n, _)| *n == name).map(|e| e.1);
                    }
                    cx.out.vals.push((*id, v.unwrap_or(-1).to_string()));
                }
            }
        }
        Ok(())
    }

    /// The host script: like `run_steps`, and in top-level export mode every top-level binding
    /// (assignments and int-valued import bindings) ends up in the exports map
    fn run_steps_host(&mut self, steps: &[Step], exports: &mut Exports, cx: &mut RunCtx) -> Result<(), ErrClass> {
        for s in steps {
            let r = self.run_steps(std::slice::from_ref(s), usize::MAX, exports, cx);
            if cx.export_top_level {
                for (name, v) in cx.top_level_bindings.drain(..) {
                    if let Some(e) = exports.iter_mut().find(|(n, _)| *n == name) {
                        e.1 = v;
                    } else {
                        exports.push((name, v));
                    }
                }
            } else {
                cx.top_level_bindings.clear();
            }
            r?;
        }
        Ok(())
    }

    fn resolve_quiet(&self, m: usize) -> Option<String> {
        let name = mname(m);
        match self.world.disk[m] {
            Disk::File | Disk::Both => Some(format!("{name}.koto")),
            Disk::Dir => Some(format!("{name}/main.koto")),
            _ => None,
        }
    }

    pub fn apply(&mut self, op: &HostOp) -> OpPrediction {
        let mut out = OpPrediction::default();
        // every host operation starts a new scope
        self.wild_stack = vec![vec![]];
        match op {
            HostOp::Run { script, plan, export_top_level } => {
                let mut cx = RunCtx { out: &mut out, plan, export_top_level: *export_top_level, top_level_bindings: vec![] };
                let mut host_exports = std::mem::take(&mut self.host_exports);
                let r = self.run_steps_host(&script.top, &mut host_exports, &mut cx);
                self.host_exports = host_exports;
                out.result = Some(r);
            }
            HostOp::CallLazy { id, plan } => {
                let Some(stmt) = self.lazies.get(id).cloned() else {
                    // the exporting script failed before the export: the call fails
                    out.result = Some(Err(ErrClass::Exact("missing".into())));
                    out.exports = self.host_exports.clone();
                    return out;
                };
                let mut cx = RunCtx { out: &mut out, plan, export_top_level: false, top_level_bindings: vec![] };
                let r = self.run_import_stmt(&stmt, &mut cx);
                out.result = Some(r);
            }
            HostOp::Heal(m) => {
                self.world.modules[*m] = healed(&self.world.modules[*m]);
                if !matches!(self.world.disk[*m], Disk::Dir | Disk::Both) {
                    self.world.disk[*m] = Disk::File;
                }
            }
            HostOp::ClearCache => {
                // documented effect: dependencies are recompiled, and therefore run again
                self.loader.clear();
            }
        }
        out.exports = self.host_exports.clone();
        out
    }
}

// ---------------------------------------------------------------------------------------------
// Real execution

#[derive(Default)]
pub struct ModLog {
    pub vals: Vec<(u32, String)>,
    pub caught: Vec<(u32, String)>,
    pub ticks: u32,
    pub fired: u32,
    pub plan: BTreeMap<u32, ()>,
}

pub struct ModInstance {
    pub host: Host,
    pub log: Arc<Mutex<ModLog>>,
    pub script_path: String,
}

pub fn new_instance(sc: &Scenario, scratch: &Scratch) -> ModInstance {
    let host = Host::new(HostSettings {
        run_tests: false,
        run_import_tests: sc.run_import_tests,
        execution_limit_ns: None,
        builder_order_seed: sc.ops.len() as u64,
    });
    let log: Arc<Mutex<ModLog>> = Default::default();
    let prelude = host.koto.prelude();
    let l = log.clone();
    prelude.add_fn("val", move |ctx| {
        let args = ctx.args().to_vec();
        if let [KValue::Number(id), v] = args.as_slice() {
            let s = ctx
                .vm
                .value_to_string(v)
                .unwrap_or_else(|e| format!("<display failed {e}>"));
            l.lock().unwrap().vals.push((i64::from(id) as u32, s));
        }
        Ok(KValue::Null)
    });
    let l = log.clone();
    prelude.add_fn("caught", move |ctx| {
        let args = ctx.args().to_vec();
        if let [KValue::Number(id), e] = args.as_slice() {
            let s = match e {
                KValue::Str(s) => s.to_string(),
                other => ctx
                    .vm
                    .value_to_string(other)
                    .unwrap_or_else(|e| format!("<display failed {e}>")),
            };
            l.lock()
                .unwrap()
                .caught
                .push((i64::from(id) as u32, host::first_line(&s)));
        }
        Ok(KValue::Null)
    });
    let l = log.clone();
    prelude.add_fn("tick", move |ctx| {
        let id = match ctx.args() {
            [KValue::Number(id)] => i64::from(id),
            _ => 0,
        };
        let fail = {
            let mut s = l.lock().unwrap();
            s.ticks += 1;
            let c = s.ticks;
            let f = s.plan.contains_key(&c);
            if f {
                s.fired += 1;
            }
            f
        };
        if fail {
            koto::runtime::runtime_error!("tickfail {id}")
        } else {
            Ok(KValue::from(id))
        }
    });
    let script_dir = if sc.via_symlink { link_path(scratch) } else { scratch.dir.clone() };
    ModInstance {
        host,
        log,
        script_path: script_dir.join("main.koto").to_string_lossy().to_string(),
    }
}

#[derive(Clone, Debug, Default, PartialEq)]
pub struct OpObserved {
    pub markers: Vec<u32>,
    pub vals: Vec<(u32, String)>,
    pub caught: Vec<(u32, String)>,
    pub result: Option<Result<String, String>>,
    pub exports: Vec<(String, i64)>,
    pub ticks: u32,
    pub fired: u32,
    pub panic: Option<String>,
    pub step_cap: bool,
    pub placeholders: usize,
    pub state: [usize; 4],
    pub instructions: u64,
}

pub fn exec_op(
    inst: &mut ModInstance,
    sc_world: &mut World,
    op: &HostOp,
    scratch: &Scratch,
    clock: &Rc<VClock>,
) -> OpObserved {
    let mut o = OpObserved::default();
    {
        let mut l = inst.log.lock().unwrap();
        l.vals.clear();
        l.caught.clear();
        l.ticks = 0;
        l.fired = 0;
        l.plan = match op {
            HostOp::Run { plan, .. } | HostOp::CallLazy { plan, .. } => plan.clone(),
            _ => BTreeMap::new(),
        };
    }
    inst.host.take_log();
    clock.record_entries.set(false);
    clock.reset(CostProfile::constant(1), 1, STEP_CAP);
    let path = inst.script_path.clone();
    match op {
        HostOp::Heal(m) => {
            sc_world.modules[*m] = healed(&sc_world.modules[*m]);
            if !matches!(sc_world.disk[*m], Disk::Dir | Disk::Both) {
                sc_world.disk[*m] = Disk::File;
            }
            write_module(sc_world, *m, sc_world.disk[*m], scratch);
            // importers quote the module's first export: unchanged by healing
        }
        HostOp::ClearCache => inst.host.koto.clear_module_cache(),
        HostOp::Run {
            script,
            export_top_level,
            ..
        } => {
            let text = render_module(script, usize::MAX, sc_world);
            let koto = &mut inst.host.koto;
            let etl = *export_top_level;
            let r = catch_unwind(AssertUnwindSafe(|| {
                let args = koto::CompileArgs::new(&text)
                    .script_path(path.as_str())
                    .export_top_level_ids(etl);
                match koto.compile_and_run(args) {
                    Ok(_) => Ok(String::new()),
                    Err(e) => Err(host::first_line(&e.to_string())),
                }
            }));
            match r {
                Ok(r) => o.result = Some(r),
                Err(p) => {
                    clock.abandon();
                    if p.downcast_ref::<StepCapExceeded>().is_some() {
                        o.step_cap = true;
                    } else {
                        o.panic = Some(host::take_last_panic().unwrap_or_default());
                    }
                }
            }
        }
        HostOp::CallLazy { id, .. } => {
            let koto = &mut inst.host.koto;
            let name = format!("lazy{id}");
            let r = catch_unwind(AssertUnwindSafe(|| {
                match koto.call_exported_function(&name, &[]) {
                    Ok(_) => Ok(String::new()),
                    Err(e) => Err(host::first_line(&e.to_string())),
                }
            }));
            match r {
                Ok(r) => o.result = Some(r),
                Err(p) => {
                    clock.abandon();
                    if p.downcast_ref::<StepCapExceeded>().is_some() {
                        o.step_cap = true;
                    } else {
                        o.panic = Some(host::take_last_panic().unwrap_or_default());
                    }
                }
            }
        }
    }
    o.instructions = clock.instructions();
    let log = inst.host.take_log();
    o.markers = log.markers.iter().map(|m| *m as u32).collect();
    {
        let l = inst.log.lock().unwrap();
        o.vals = l.vals.clone();
        o.caught = l.caught.clone();
        o.ticks = l.ticks;
        o.fired = l.fired;
    }
    // the host-visible exports: int-valued entries only, in order
    for (k, v) in inst.host.koto.exports().data().iter() {
        if let (KValue::Str(name), KValue::Number(n)) = (k.value(), v)
            && is_host_name(name)
        {
            o.exports.push((name.to_string(), i64::from(n)));
        }
    }
    let st = inst.host.koto.verif_vm().verif_state();
    o.placeholders = st.module_cache_placeholders;
    o.state = [st.registers, st.call_stack, st.sequence_builders, st.string_builders];
    o
}

/// Names created by the host scripts' own `export` statements (h<k>) and top-level assignments
/// (t<k>). What import statements bind in top-level export mode is not part of the property's
/// statement ("every top-level assignment") and is not compared.
fn is_host_name(name: &str) -> bool {
    let mut c = name.chars();
    matches!(c.next(), Some('h' | 't')) && c.all(|x| x.is_ascii_digit()) && name.len() > 1
}

fn classify(text: &str) -> ErrClass {
    // context added by the test runner is not part of the class
    let t = text.split(" (while ").next().unwrap_or(text);
    if t.starts_with("recursive import") {
        ErrClass::Cycle
    } else if t.starts_with("unable to find module") {
        ErrClass::NotFound
    } else if t.starts_with("failed to read") {
        ErrClass::ReadError
    } else if t.contains("not found in") {
        ErrClass::MissingItem
    } else if t.starts_with("tickfail") || (t.starts_with('F') && t.len() <= 3) {
        ErrClass::Exact(t.to_string())
    } else {
        ErrClass::CompileError
    }
}

#[derive(Clone, Debug, PartialEq)]
pub struct Violation {
    pub class: String,
    pub detail: String,
    pub op_index: usize,
}

pub struct Eval {
    pub violation: Option<Violation>,
    pub harness_error: Option<String>,
    pub digest: u64,
    pub executions: u64,
    pub instructions: u64,
    pub sig: u64,
    pub error_seen: bool,
    pub counters: Vec<(&'static str, u64)>,
    pub log: Vec<Value>,
}

pub fn evaluate(sc: &Scenario, scratch: &Scratch, clock: &Rc<VClock>) -> Eval {
    write_world(&sc.world, scratch);
    let mut inst = new_instance(sc, scratch);
    let mut model = ModelState::new(sc);
    let mut world = sc.world.clone();
    let mut dg = Digest::new();
    let mut ev = Eval {
        violation: None,
        harness_error: None,
        digest: 0,
        executions: 0,
        instructions: 0,
        sig: 0,
        error_seen: false,
        counters: vec![],
        log: vec![],
    };
    let mut n_import_ops = 0u64;
    let mut n_failed = 0u64;
    let mut n_fired = 0u64;
    let mut n_caught = 0u64;
    for (i, op) in sc.ops.iter().enumerate() {
        let pred = model.apply(op);
        if let Some(g) = &model.gap {
            ev.harness_error = Some(format!("model gap: {g}"));
            return ev;
        }
        let obs = exec_op(&mut inst, &mut world, op, scratch, clock);
        ev.executions += 1;
        ev.instructions += obs.instructions;
        for m in &obs.markers {
            dg.u64(*m as u64);
        }
        for (a, b) in &obs.vals {
            dg.u64(*a as u64);
            dg.str(b);
        }
        dg.str(&format!("{:?}", obs.result.as_ref().map(|r| r.as_ref().map(|_| ()).map_err(|e| classify(e)))));
        n_fired += obs.fired as u64;
        n_caught += obs.caught.len() as u64;
        if matches!(op, HostOp::Run { .. } | HostOp::CallLazy { .. }) {
            n_import_ops += 1;
        }
        let op_failed = matches!(&obs.result, Some(Err(_)));
        if op_failed {
            n_failed += 1;
        }
        let errors_in_op = op_failed
            || !obs.caught.is_empty()
            || matches!(&pred.result, Some(Err(_)))
            || !pred.caught.is_empty();
        ev.error_seen |= errors_in_op;
        ev.log.push(json!({"op": i, "kind": format!("{:?}", std::mem::discriminant(op)), "markers": obs.markers, "vals": obs.vals.iter().map(|(a, b)| json!([a, b])).collect::<Vec<_>>(),
            "caught": obs.caught.iter().map(|(a, b)| json!([a, b])).collect::<Vec<_>>(), "result": format!("{:?}", obs.result), "exports": obs.exports.iter().map(|(a, b)| json!([a, b])).collect::<Vec<_>>() }));

        let mut v: Option<(String, String)> = None;
        if let Some(p) = &obs.panic {
            v = Some(("panic".into(), p.replace('\n', " ")));
        } else if obs.step_cap {
            v = Some(("no-return".into(), format!("operation {i}")));
        } else if pred.markers != obs.markers {
            v = Some((
                "run-once/order (marker trace)".into(),
                format!("model {:?}, koto {:?}", pred.markers, obs.markers),
            ));
        } else if pred.vals != obs.vals {
            v = Some((
                "bound-values".into(),
                format!("model {:?}, koto {:?}", pred.vals, obs.vals),
            ));
        } else {
            let oc: Vec<(u32, ErrClass)> = obs.caught.iter().map(|(a, b)| (*a, classify(b))).collect();
            if pred.caught != oc {
                v = Some((
                    "import-outcome (caught in script)".into(),
                    format!("model {:?}, koto {:?}", pred.caught, obs.caught),
                ));
            }
        }
        if v.is_none() {
            let or = obs.result.as_ref().map(|r| r.as_ref().map(|_| ()).map_err(|e| classify(e)));
            let pr = pred.result.clone();
            let lazy_missing = matches!(&pr, Some(Err(ErrClass::Exact(s))) if s == "missing");
            if lazy_missing {
                if !matches!(or, Some(Err(_))) {
                    v = Some(("import-outcome".into(), format!("expected a failing call, got {:?}", obs.result)));
                }
            } else if or != pr {
                v = Some((
                    "import-outcome".into(),
                    format!("model {:?}, koto {:?}", pred.result, obs.result),
                ));
            }
        }
        if v.is_none() && pred.exports != obs.exports {
            v = Some((
                "host-exports".into(),
                format!("model {:?}, koto {:?}", pred.exports, obs.exports),
            ));
        }
        if v.is_none() && obs.placeholders != 0 {
            v = Some((
                "placeholder-left".into(),
                format!("{} import placeholders after operation {i}", obs.placeholders),
            ));
        }
        if let Some((class, detail)) = v {
            // error-free import histories are in C18's domain too (run-once, resolution, binding,
            // exports): every disagreement with the contract model is reported
            ev.violation = Some(Violation {
                class,
                detail,
                op_index: i,
            });
            break;
        }
    }
    let mut d = Digest::new();
    let set: BTreeSet<&String> = model.sig.iter().collect();
    for s in set {
        d.str(s);
    }
    for dk in &sc.world.disk {
        d.str(&format!("{dk:?}"));
    }
    ev.sig = d.0;
    ev.digest = dg.0;
    ev.counters = vec![
        ("import_operations", n_import_ops),
        ("operations_failed", n_failed),
        ("fault.transient_module_failure.fired", n_fired),
        ("import_failures_caught_in_script", n_caught),
        ("fault.permanent_module_failure.configured", sc.world.modules.iter().filter(|m| m.top.iter().chain(m.test.iter().flatten()).chain(m.main.iter().flatten()).any(|s| matches!(s, Step::Throw(_)))).count() as u64),
        ("fault.disk.missing_file", sc.world.disk.iter().filter(|d| **d == Disk::Missing).count() as u64),
        ("fault.disk.directory_in_place_of_file", sc.world.disk.iter().filter(|d| **d == Disk::DirNamedLikeFile).count() as u64),
        ("fault.disk.invalid_utf8", sc.world.disk.iter().filter(|d| **d == Disk::InvalidUtf8).count() as u64),
        ("fault.disk.broken_syntax", sc.world.disk.iter().filter(|d| **d == Disk::BrokenSyntax).count() as u64),
        ("modules.file_and_directory_both", sc.world.disk.iter().filter(|d| **d == Disk::Both).count() as u64),
        ("ops.heal", sc.ops.iter().filter(|o| matches!(o, HostOp::Heal(_))).count() as u64),
        ("ops.clear_module_cache", sc.ops.iter().filter(|o| matches!(o, HostOp::ClearCache)).count() as u64),
        ("probe.cycle_reported", model.sig.iter().filter(|s| *s == "cycle").count() as u64),
        ("probe.cache_hit", model.sig.iter().filter(|s| *s == "cache-hit").count() as u64),
    ];
    ev
}

// ---------------------------------------------------------------------------------------------
// Minimisation

pub fn shrink(sc: &Scenario, class: &str, scratch: &Scratch, clock: &Rc<VClock>) -> (Scenario, usize) {
    let mut best = sc.clone();
    let mut steps = 0;
    // a candidate must still be a well-formed scenario: what a later step relies on stays
    fn steps_valid(steps: &[Step]) -> bool {
        for (i, s) in steps.iter().enumerate() {
            let before = &steps[..i];
            let ok = match s {
                Step::TopAddAssign(k, _) | Step::TopLoopAdd(k, _) | Step::TopForBreak(k, _) => {
                    before.iter().any(|b| matches!(b, Step::TopAssign(kk, _) if kk == k))
                }
                Step::ExportSub(t) => before.iter().any(|b| {
                    matches!(b, Step::Import(i) if i.target == *t && i.form == Form::Plain && !i.in_try && !i.in_else)
                }),
                Step::Reassign(k, _) => before.iter().any(|b| matches!(b, Step::Export(kk, _) if kk == k)),
                _ => true,
            };
            if !ok {
                return false;
            }
        }
        true
    }
    let well_formed = |c: &Scenario| -> bool {
        c.world.modules.iter().all(|m| steps_valid(&m.top))
            && c.ops.iter().all(|o| match o {
                HostOp::Run { script, .. } => steps_valid(&script.top),
                _ => true,
            })
    };
    let still = |c: &Scenario| -> bool {
        if !well_formed(c) {
            return false;
        }
        let e = evaluate(c, scratch, clock);
        e.harness_error.is_none() && e.violation.as_ref().is_some_and(|v| v.class == class)
    };
    if let Some(v) = evaluate(&best, scratch, clock).violation {
        best.ops.truncate(v.op_index + 1);
    }
    loop {
        let mut cands: Vec<Scenario> = vec![];
        for i in (0..best.ops.len()).rev() {
            if best.ops.len() > 1 {
                let mut c = best.clone();
                c.ops.remove(i);
                cands.push(c);
            }
        }
        // drop steps of host scripts
        for i in 0..best.ops.len() {
            if let HostOp::Run { script, export_top_level, plan } = &best.ops[i] {
                for k in 0..script.top.len() {
                    let mut s2 = script.clone();
                    s2.top.remove(k);
                    let mut c = best.clone();
                    c.ops[i] = HostOp::Run { script: s2, export_top_level: *export_top_level, plan: plan.clone() };
                    cands.push(c);
                }
                if !plan.is_empty() {
                    let mut c = best.clone();
                    c.ops[i] = HostOp::Run { script: script.clone(), export_top_level: *export_top_level, plan: BTreeMap::new() };
                    cands.push(c);
                }
                if *export_top_level {
                    let mut c = best.clone();
                    c.ops[i] = HostOp::Run { script: script.clone(), export_top_level: false, plan: plan.clone() };
                    cands.push(c);
                }
                for k in 0..script.top.len() {
                    if let Step::Import(s) = &script.top[k] {
                        if s.in_try {
                            let mut s2 = script.clone();
                            s2.top[k] = Step::Import(ImportStmt { in_try: false, ..s.clone() });
                            let mut c = best.clone();
                            c.ops[i] = HostOp::Run { script: s2, export_top_level: *export_top_level, plan: plan.clone() };
                            cands.push(c);
                        }
                        if s.form != Form::Plain {
                            let mut s2 = script.clone();
                            s2.top[k] = Step::Import(ImportStmt { form: Form::Plain, ..s.clone() });
                            let mut c = best.clone();
                            c.ops[i] = HostOp::Run { script: s2, export_top_level: *export_top_level, plan: plan.clone() };
                            cands.push(c);
                        }
                    }
                }
            }
        }
        // simplify modules: drop steps, tests, mains; plain files
        for m in 0..best.world.modules.len() {
            let def = &best.world.modules[m];
            for k in 0..def.top.len() {
                if matches!(def.top[k], Step::Export(1, _)) {
                    continue;
                }
                let mut c = best.clone();
                c.world.modules[m].top.remove(k);
                cands.push(c);
            }
            if def.test.is_some() {
                let mut c = best.clone();
                c.world.modules[m].test = None;
                cands.push(c);
            }
            if def.main.is_some() {
                let mut c = best.clone();
                c.world.modules[m].main = None;
                cands.push(c);
            }
            if best.world.disk[m] != Disk::File {
                let mut c = best.clone();
                c.world.disk[m] = Disk::File;
                cands.push(c);
            }
        }
        if best.run_import_tests {
            let mut c = best.clone();
            c.run_import_tests = false;
            cands.push(c);
        }
        if best.via_symlink {
            let mut c = best.clone();
            c.via_symlink = false;
            cands.push(c);
        }
        let mut progressed = false;
        for c in cands {
            steps += 1;
            if steps > 1200 {
                break;
            }
            if still(&c) {
                best = c;
                progressed = true;
                break;
            }
        }
        if !progressed || steps > 1200 {
            break;
        }
    }
    (best, steps)
}

// ---------------------------------------------------------------------------------------------
// JSON + replay (explicit: files, operations, expected outcomes)

pub fn scenario_to_json(sc: &Scenario) -> Value {
    let mut world = sc.world.clone();
    let mut model = ModelState::new(sc);
    let files = |w: &World| -> Vec<Value> {
        let mut v: Vec<Value> = (0..w.modules.len())
            .map(|i| json!({"module": mname(i), "disk": format!("{:?}", w.disk[i]), "text": render_module(&w.modules[i], i, w)}))
            .collect();
        for i in 0..w.modules.len() {
            if w.helper[i] && w.disk[i] == Disk::Dir {
                v.push(json!({"module": format!("{}/{}", mname(i), hname(i)), "disk": "HelperFile", "text": render_module(&helper_def(i), i, w)}));
            }
        }
        v
    };
    let initial_files = files(&world);
    let ops: Vec<Value> = sc
        .ops
        .iter()
        .map(|op| {
            let pred = model.apply(op);
            let expected = json!({
                "markers": pred.markers,
                "vals": pred.vals.iter().map(|(a, b)| json!([a, b])).collect::<Vec<_>>(),
                "caught": pred.caught.iter().map(|(a, b)| json!([a, format!("{b:?}")])).collect::<Vec<_>>(),
                "result": format!("{:?}", pred.result),
                "exports": pred.exports.iter().map(|(a, b)| json!([a, b])).collect::<Vec<_>>(),
            });
            match op {
                HostOp::Run { script, export_top_level, plan } => json!({
                    "op": "Run", "source": render_module(script, usize::MAX, &world),
                    "export_top_level_ids": export_top_level,
                    "fail_fault_points": plan.keys().collect::<Vec<_>>(), "expected": expected,
                }),
                HostOp::CallLazy { id, plan } => json!({"op": "Call", "function": format!("lazy{id}"), "fail_fault_points": plan.keys().collect::<Vec<_>>(), "expected": expected}),
                HostOp::Heal(m) => {
                    world.modules[*m] = healed(&world.modules[*m]);
                    if !matches!(world.disk[*m], Disk::Dir | Disk::Both) {
                        world.disk[*m] = Disk::File;
                    }
                    json!({"op": "RewriteFile", "module": mname(*m), "disk": format!("{:?}", world.disk[*m]), "text": render_module(&world.modules[*m], *m, &world)})
                }
                HostOp::ClearCache => json!({"op": "ClearModuleCache"}),
            }
        })
        .collect();
    json!({
        "run_import_tests": sc.run_import_tests,
        "script_reached_through_symlink": sc.via_symlink,
        "via_symlink": sc.via_symlink,
        "files": initial_files,
        "operations": ops,
        "debug": format!("{sc:?}"),
    })
}

// The replay of a modsim scenario re-parses nothing: the scenario is re-created from its debug
// form being impractical, replay files carry the generator seed and the shrunk structure is
// re-derived by replaying the stored `files` and `operations` directly.
pub fn replay(doc: &Value) -> (Option<(String, String)>, u64) {
    let sc = &doc["scenario"];
    let scratch = Scratch::new("mod-replay");
    let clock = host::install_clock();
    scratch.clear();
    std::fs::write(scratch.dir.join("main.koto"), "# importing script\n").expect("write");
    std::fs::write(scratch.dir.join(FIXTURE_MODULE.0), FIXTURE_MODULE.1).expect("write");
    std::fs::write(scratch.dir.join(FIXTURE_HELPER.0), FIXTURE_HELPER.1).expect("write");
    for (name, text) in FIXTURE_EXTRA {
        if let Some(parent) = scratch.dir.join(name).parent() {
            std::fs::create_dir_all(parent).expect("mkdir");
        }
        std::fs::write(scratch.dir.join(name), text).expect("write");
    }
    let write_file = |f: &Value| {
        let name = f["module"].as_str().unwrap_or("");
        let text = f["text"].as_str().unwrap_or("");
        let file = scratch.dir.join(format!("{name}.koto"));
        let dir = scratch.dir.join(name);
        let _ = std::fs::remove_file(&file);
        let _ = std::fs::remove_dir_all(&file);
        match f["disk"].as_str().unwrap_or("") {
            "HelperFile" => {
                if let Some(parent) = file.parent() {
                    let _ = std::fs::create_dir_all(parent);
                }
                std::fs::write(&file, text).expect("write")
            }
            "File" => std::fs::write(&file, text).expect("write"),
            "Dir" => {
                std::fs::create_dir_all(&dir).expect("mkdir");
                std::fs::write(dir.join("main.koto"), text).expect("write");
            }
            "Both" => {
                std::fs::write(&file, text).expect("write");
                std::fs::create_dir_all(&dir).expect("mkdir");
                // the directory variant exports different values: any text with bumped values
                let bumped = text.replace(" = 1", " = 101").replace(" = 2", " = 102").replace("mark(", "mark(5000 + ");
                std::fs::write(dir.join("main.koto"), bumped).expect("write");
            }
            "Missing" => {}
            "DirNamedLikeFile" => std::fs::create_dir_all(&file).expect("mkdir"),
            "InvalidUtf8" => std::fs::write(&file, b"export x = 1\n\xff\xfe\n").expect("write"),
            _ => std::fs::write(&file, "export x = (1 +\n").expect("write"),
        }
    };
    ensure_link(&scratch);
    let mut files = sc["files"].as_array().cloned().unwrap_or_default();
    files.sort_by_key(|f| f["disk"].as_str() == Some("HelperFile"));
    for f in files {
        write_file(&f);
    }
    let dummy = Scenario {
        via_symlink: sc["via_symlink"].as_bool().unwrap_or(false),
        world: World { modules: vec![], disk: vec![], helper: vec![] },
        ops: vec![],
        run_import_tests: sc["run_import_tests"].as_bool().unwrap_or(true),
    };
    let mut inst = new_instance(&dummy, &scratch);
    let mut dg = Digest::new();
    for (i, o) in sc["operations"].as_array().cloned().unwrap_or_default().iter().enumerate() {
        let plan: BTreeMap<u32, ()> = o["fail_fault_points"]
            .as_array()
            .map(|a| a.iter().filter_map(|x| x.as_u64().map(|x| (x as u32, ()))).collect())
            .unwrap_or_default();
        {
            let mut l = inst.log.lock().unwrap();
            l.vals.clear();
            l.caught.clear();
            l.ticks = 0;
            l.fired = 0;
            l.plan = plan;
        }
        inst.host.take_log();
        clock.reset(CostProfile::constant(1), 1, STEP_CAP);
        let path = inst.script_path.clone();
        let mut result: Option<Result<String, String>> = None;
        let mut panic = None;
        match o["op"].as_str().unwrap_or("") {
            "RewriteFile" => write_file(o),
            "ClearModuleCache" => inst.host.koto.clear_module_cache(),
            kind => {
                let koto = &mut inst.host.koto;
                let r = catch_unwind(AssertUnwindSafe(|| {
                    let r = if kind == "Run" {
                        let args = koto::CompileArgs::new(o["source"].as_str().unwrap_or(""))
                            .script_path(path.as_str())
                            .export_top_level_ids(o["export_top_level_ids"].as_bool().unwrap_or(false));
                        koto.compile_and_run(args)
                    } else {
                        koto.call_exported_function(o["function"].as_str().unwrap_or(""), &[])
                    };
                    match r {
                        Ok(_) => Ok(String::new()),
                        Err(e) => Err(host::first_line(&e.to_string())),
                    }
                }));
                match r {
                    Ok(r) => result = Some(r),
                    Err(_) => {
                        clock.abandon();
                        panic = Some(host::take_last_panic().unwrap_or_default());
                    }
                }
            }
        }
        if let Some(p) = panic {
            return (Some(("panic".into(), p.replace('\n', " "))), dg.0);
        }
        let e = &o["expected"];
        if e.is_null() {
            continue;
        }
        let log = inst.host.take_log();
        let markers: Vec<u64> = log.markers.iter().map(|m| *m as u64).collect();
        let exp_markers: Vec<u64> = e["markers"].as_array().map(|a| a.iter().filter_map(|x| x.as_u64()).collect()).unwrap_or_default();
        for m in &markers {
            dg.u64(*m);
        }
        if markers != exp_markers {
            return (Some(("run-once/order (marker trace)".into(), format!("operation {i}: expected {exp_markers:?}, got {markers:?}"))), dg.0);
        }
        let l = inst.log.lock().unwrap();
        let vals: Vec<Value> = l.vals.iter().map(|(a, b)| json!([a, b])).collect();
        if json!(vals) != e["vals"] {
            return (Some(("bound-values".into(), format!("operation {i}: expected {}, got {}", e["vals"], json!(vals)))), dg.0);
        }
        let caught: Vec<Value> = l.caught.iter().map(|(a, b)| json!([a, format!("{:?}", classify(b))])).collect();
        if json!(caught) != e["caught"] {
            return (Some(("import-outcome (caught in script)".into(), format!("operation {i}: expected {}, got {}", e["caught"], json!(caught)))), dg.0);
        }
        drop(l);
        let got = format!("{:?}", result.as_ref().map(|r| r.as_ref().map(|_| ()).map_err(|e| classify(e))));
        let exp = e["result"].as_str().unwrap_or("");
        if got != exp && !(exp.contains("\"missing\"") && got.contains("Err")) {
            return (Some(("import-outcome".into(), format!("operation {i}: expected {exp}, got {got} ({result:?})"))), dg.0);
        }
        let mut exports = vec![];
        for (k, v) in inst.host.koto.exports().data().iter() {
            if let (KValue::Str(name), KValue::Number(n)) = (k.value(), v)
                && is_host_name(name)
            {
                exports.push(json!([name.to_string(), i64::from(n)]));
            }
        }
        if json!(exports) != e["exports"] {
            return (Some(("host-exports".into(), format!("operation {i}: expected {}, got {}", e["exports"], json!(exports)))), dg.0);
        }
        if inst.host.koto.verif_vm().verif_state().module_cache_placeholders != 0 {
            return (Some(("placeholder-left".into(), format!("operation {i}"))), dg.0);
        }
    }
    (None, dg.0)
}

// ---------------------------------------------------------------------------------------------
// Worker

pub struct ModWorker {
    clock: Rc<VClock>,
    scratch: Scratch,
    known: KnownFindings,
}

impl ModWorker {
    pub fn new(known: KnownFindings) -> Self {
        Self {
            clock: host::install_clock(),
            scratch: Scratch::new("mod"),
            known,
        }
    }
}

pub fn features(sc: &Scenario) -> BTreeSet<String> {
    let mut f = BTreeSet::new();
    for d in &sc.world.disk {
        f.insert(format!("disk:{d:?}"));
    }
    for op in &sc.ops {
        match op {
            HostOp::Run { script, export_top_level, plan } => {
                f.insert("op:Run".into());
                if *export_top_level {
                    f.insert("export-top-level".into());
                }
                if !plan.is_empty() {
                    f.insert("transient-fault".into());
                }
                let mut seen = BTreeSet::new();
                for s in &script.top {
                    if let Step::Import(i) = s {
                        f.insert(format!("form:{:?}", i.form));
                        if i.in_try {
                            f.insert("import-in-try".into());
                        }
                        if !seen.insert(i.target) {
                            f.insert("same-module-imported-twice-in-one-scope".into());
                        }
                    }
                }
            }
            HostOp::CallLazy { .. } => {
                f.insert("op:CallLazy".into());
            }
            HostOp::Heal(_) => {
                f.insert("op:Heal".into());
            }
            HostOp::ClearCache => {
                f.insert("op:ClearCache".into());
            }
        }
    }
    f.insert(format!("modules:{}", sc.world.modules.len()));
    if sc.via_symlink {
        f.insert("script-path-through-symlink".into());
    }
    f
}

impl Worker for ModWorker {
    fn run(&mut self, run_seed: u64, index: u64) -> RunReport {
        let sc = gen_scenario(run_seed);
        let ev = evaluate(&sc, &self.scratch, &self.clock);
        let mut rep = RunReport {
            digest: ev.digest,
            executions: ev.executions,
            sim_units: ev.counters.first().map(|c| c.1).unwrap_or(0),
            counters: ev.counters.clone(),
            ..Default::default()
        };
        rep.counters.push(("scenarios", 1));
        rep.counters.retain(|(_, v)| *v > 0);
        if let Some(e) = ev.harness_error {
            rep.harness_error = Some(format!("{e}\n{}", serde_json::to_string(&scenario_to_json(&sc)).unwrap_or_default().chars().take(4000).collect::<String>()));
            return rep;
        }
        if ev.error_seen {
            rep.signature = Some(ev.sig);
        }
        if index < 2 {
            rep.sample = Some(json!({"run_seed": run_seed, "scenario": scenario_to_json(&sc), "log": ev.log}));
        }
        if let Some(v) = ev.violation {
            let (msc, steps) = shrink(&sc, &v.class, &self.scratch, &self.clock);
            let e1 = evaluate(&msc, &self.scratch, &self.clock);
            let e2 = evaluate(&msc, &self.scratch, &self.clock);
            let Some(v1) = e1.violation.clone() else {
                rep.harness_error = Some(format!("minimised scenario lost the violation {}", v.class));
                return rep;
            };
            if e2.violation.as_ref() != Some(&v1) || e1.digest != e2.digest {
                rep.harness_error = Some(format!("violation {} does not replay deterministically", v.class));
                return rep;
            }
            let feats = features(&msc);
            let known = self.known.matches("modsim", &v1.class, &feats);
            rep.violations.push(ViolationReport {
                class: v1.class.clone(),
                detail: v1.detail.clone(),
                scenario: scenario_to_json(&msc),
                extra: json!({
                    "features": feats,
                    "violating_operation": v1.op_index,
                    "shrink_steps": steps,
                    "original_violation": {"class": v.class, "detail": v.detail},
                    "log": e1.log,
                }),
                known,
            });
        }
        rep
    }
}

pub fn show(run_seed: u64) {
    let sc = gen_scenario(run_seed);
    println!("{}", serde_json::to_string_pretty(&scenario_to_json(&sc)).unwrap());
    let scratch = Scratch::new("mod-show");
    let clock = host::install_clock();
    let ev = evaluate(&sc, &scratch, &clock);
    println!("log: {}", serde_json::to_string_pretty(&ev.log).unwrap());
    println!("violation: {:?}\nharness: {:?}", ev.violation, ev.harness_error);
}
