//! The executable reference model of SimLang: documented semantics of unwinding, not the
//! implementation. Takes the same fault plan as the real run and predicts the marker trace,
//! the caught-value classes, the variable dumps, stdout and the result.

use crate::simlang::*;
use std::collections::BTreeMap;

#[derive(Clone, Copy, Debug, PartialEq, Eq, Hash, PartialOrd, Ord)]
pub enum FaultKind {
    /// the host function returns a string error
    HostErr,
    /// the host function returns a typed thrown value (T1 / T2)
    HostThrow(u8),
    /// the host function returns a wrong value: the consuming instruction fails naturally
    BadVal,
}

/// dynamic tick invocation ordinal (1-based) -> fault. Keys from `IO_BASE` upwards denote the
/// n-th stream write (`IO_BASE + n`): that write operation fails (the stream seam).
pub type FaultPlan = BTreeMap<u32, FaultKind>;
pub const IO_BASE: u32 = 1_000_000;
pub const ERR_IO: &str = "simulated stream failure";

#[derive(Clone, Debug, PartialEq)]
pub enum Thrown {
    /// a thrown string
    Str(String),
    /// a thrown typed object T<k> with its code
    Typed(u8, i64),
    /// a runtime error, identified by its message class (first line)
    Runtime(String),
    /// a thrown number
    Num(i64),
    /// a thrown plain map `{code: c}` (no metamap)
    Plain(i64),
}

impl Thrown {
    /// what `caught(e)` records / the first line of the final error message
    pub fn class(&self) -> String {
        match self {
            Thrown::Str(s) => s.clone(),
            Thrown::Typed(k, c) => format!("T{k}({c})"),
            Thrown::Runtime(s) => s.clone(),
            Thrown::Num(n) => n.to_string(),
            Thrown::Plain(c) => format!("{{code: {c}}}"),
        }
    }
}

#[derive(Clone, Debug)]
pub struct ThrowInfo {
    pub thrown: Thrown,
    /// source line where the error was raised
    pub origin_line: u32,
    /// lines of the call sites unwound so far (innermost first), while only plain frames
    pub call_lines: Vec<u32>,
    /// the error crossed a conduit whose frames the C12 oracle does not define
    pub crossed_opaque: bool,
    /// no catch block of some try accepted the value and it was thrown again from there
    pub rethrown: bool,
    /// source texts of frames that belong to OTHER chunks (`koto.run` snippets); a call line
    /// `FOREIGN_BASE + i` stands for line 1 of `foreign[i]`
    pub foreign: Vec<String>,
}

pub const FOREIGN_BASE: u32 = 1 << 30;

enum Abrupt {
    Throw(Box<ThrowInfo>),
    Break,
    Continue,
    Return(i64),
}

type Exec<T> = Result<T, Abrupt>;

#[derive(Clone, Debug, Default)]
pub struct Frame {
    pub i: [i64; 3],
    pub s0: String,
    pub l0: Vec<i64>,
    pub m0: Vec<(u8, i64)>,
    pub param: i64,
    pub j: [i64; 2],
}

#[derive(Clone, Debug, PartialEq)]
pub struct Prediction {
    pub markers: Vec<u32>,
    pub caught: Vec<(u32, String)>,
    pub dumps: Vec<String>,
    pub stdout: String,
    /// Ok(rendered value) / Err(message class)
    pub result: Result<String, String>,
    pub ticks: u32,
    /// stream write operations performed (or attempted)
    pub io_ops: u32,
    /// iterations of `Stmt::Storm` loops executed (the step cap of the execution allows for them)
    pub storm_iterations: u64,
    /// evaluation steps of the model (expressions + statements): the step cap of the execution
    /// on the real VM grows with them, so that a legitimately long run is never "did not return"
    pub model_steps: u64,
    /// the uncaught error is a runtime error that was caught and thrown again on its way: what
    /// is thrown again is the TEXT of the error as the catch block saw it (possibly several
    /// lines), so context the host appends afterwards does not end up on the first line
    pub rethrown_runtime: bool,
    /// see `ThrowInfo::foreign`
    pub trace_foreign: Vec<String>,
    /// parallel to `caught`: the caught value was a runtime error (its text may carry trace
    /// lines); false = a thrown value, which reaches the handler exactly as thrown
    pub caught_runtime: Vec<bool>,
    /// an alternative first line of the error that is accepted as well (see above)
    pub result_alt: Option<String>,
    /// ids of the tick sites in invocation order
    pub tick_ids: Vec<u32>,
    /// number of faults of the plan that fired
    pub fired: u32,
    /// true if any error of any kind was raised during the execution
    pub error_occurred: bool,
    /// for an uncaught error: expected trace lines [origin, call sites innermost first];
    /// None when the path crossed an opaque conduit (then only `origin` is checked)
    pub trace_lines: Option<Vec<u32>>,
    pub origin_line: Option<u32>,
    /// the model met a situation it does not define (division of labour: harness error)
    pub model_gap: Option<String>,
    /// a `finally` block was bypassed by an abrupt exit in deviation mode / would run in
    /// documented mode (the run exercises known finding KF-C04-1)
    pub abrupt_exit_through_finally: bool,
    /// signature material: (fault kind or throw, conduit stack at the failure, handled how)
    pub sig: Vec<String>,
    /// contents of the global list after the execution
    pub gl: Vec<i64>,
    /// what was live when an uncaught error was raised (sequence / string builder)
    pub live_at_failure: Vec<String>,
}

/// Where an execution enters the program
#[derive(Clone, Copy, Debug, PartialEq)]
pub enum Entry {
    /// run the whole script
    Main,
    /// the host calls exported function f<k> with one int argument
    Func(usize, i64),
    /// the host renders exported object OPD<k> (its @display calls f<k>(0))
    Display(usize),
}

impl Default for Prediction {
    fn default() -> Self {
        Self {
            markers: vec![],
            caught: vec![],
            dumps: vec![],
            stdout: String::new(),
            result: Ok(String::new()),
            ticks: 0,
            io_ops: 0,
            storm_iterations: 0,
            model_steps: 0,
            rethrown_runtime: false,
            trace_foreign: vec![],
            caught_runtime: vec![],
            result_alt: None,
            tick_ids: vec![],
            fired: 0,
            error_occurred: false,
            trace_lines: None,
            origin_line: None,
            model_gap: None,
            abrupt_exit_through_finally: false,
            sig: vec![],
            gl: vec![],
            live_at_failure: vec![],
        }
    }
}

thread_local! {
    /// has the instance the model stands for already loaded `okmod` (its top level marks 4242
    /// once per runtime)? Set by the engine before a model run, read back afterwards.
    static OKMOD_LOADED: std::cell::Cell<bool> = const { std::cell::Cell::new(false) };
}
pub fn set_okmod_loaded(v: bool) {
    OKMOD_LOADED.with(|c| c.set(v));
}
pub fn okmod_loaded() -> bool {
    OKMOD_LOADED.with(|c| c.get())
}

pub struct ModelOpts {
    /// the dynamic fault-point ordinal continues from here (several entries in one host operation)
    pub tick_start: u32,
    /// documented behaviour: `finally` runs on every exit path. When false the model
    /// reproduces the known deviation (finally only runs on the fall-through paths).
    pub finally_on_abrupt_exit: bool,
}

pub struct Model<'a> {
    p: &'a Program,
    printed: &'a Printed,
    plan: &'a FaultPlan,
    opts: ModelOpts,
    pub out: Prediction,
    gl: Vec<i64>,
    conduit_stack: Vec<Conduit>,
    steps: u64,
}

pub fn fmt_list(v: &[i64]) -> String {
    format!(
        "[{}]",
        v.iter().map(|x| x.to_string()).collect::<Vec<_>>().join(", ")
    )
}

fn fmt_map(v: &[(u8, i64)]) -> String {
    format!(
        "{{{}}}",
        v.iter()
            .map(|(k, x)| format!("k{k}: {x}"))
            .collect::<Vec<_>>()
            .join(", ")
    )
}

pub const ERR_ADD: &str = "unable to perform operation '+' with 'String' and 'Number'";
pub const ERR_INDEX: &str = "index out of bounds - index: 7, size: 1";
pub const ERR_UNHASHABLE: &str = "only hashable values can be used as value keys";
pub const ERR_ARGC: &str = "insufficient arguments (0, expected 1)";

impl<'a> Model<'a> {
    pub fn run(p: &'a Program, printed: &'a Printed, plan: &'a FaultPlan, opts: ModelOpts) -> Prediction {
        Self::run_entry(p, printed, plan, opts, Entry::Main, vec![])
    }

    pub fn run_entry(
        p: &'a Program,
        printed: &'a Printed,
        plan: &'a FaultPlan,
        opts: ModelOpts,
        entry: Entry,
        gl: Vec<i64>,
    ) -> Prediction {
        let mut m = Model {
            p,
            printed,
            plan,
            opts,
            out: Prediction {
                result: Ok(String::new()),
                ..Default::default()
            },
            gl,
            conduit_stack: vec![],
            steps: 0,
        };
        m.out.ticks = m.opts.tick_start;
        let r = match entry {
            Entry::Main => {
                let mut frame = Frame::default();
                m.exec_func_body(&p.main, &mut frame, 3000)
            }
            Entry::Func(k, a) => m.invoke(k, a, 0, Conduit::Plain),
            Entry::Display(k) => m.invoke(k, 0, 0, Conduit::Display),
        };
        match r {
            Ok(v) => {
                m.out.result = Ok(match entry {
                    Entry::Display(_) => format!("D{v}"),
                    _ => v.to_string(),
                })
            }
            Err(Abrupt::Throw(t)) => {
                m.out.result = Err(t.thrown.class());
                m.out.rethrown_runtime = t.rethrown && matches!(t.thrown, Thrown::Runtime(_));
                m.out.origin_line = Some(t.origin_line);
                if !t.crossed_opaque && entry == Entry::Main {
                    let mut lines = vec![t.origin_line];
                    lines.extend(t.call_lines.iter().copied());
                    m.out.trace_lines = Some(lines);
                    m.out.trace_foreign = t.foreign.clone();
                }
                m.out.sig.push("uncaught".into());
            }
            Err(Abrupt::Return(v)) => m.out.result = Ok(v.to_string()),
            Err(_) => m.out.model_gap = Some("break/continue escaped to top level".into()),
        }
        m.out.gl = std::mem::take(&mut m.gl);
        m.out.model_steps = m.steps;
        m.out
    }

    fn throw(&mut self, thrown: Thrown, line: u32, what: &str) -> Abrupt {
        self.out.error_occurred = true;
        let stack: Vec<String> = self.conduit_stack.iter().map(|c| format!("{c:?}")).collect();
        self.out.sig.push(format!("{what}@[{}]", stack.join(">")));
        Abrupt::Throw(Box::new(ThrowInfo {
            thrown,
            origin_line: line,
            call_lines: vec![],
            crossed_opaque: false,
            rethrown: false,
            foreign: vec![],
        }))
    }

    fn eval(&mut self, e: &Expr, f: &mut Frame) -> Exec<i64> {
        self.steps += 1;
        if self.steps > 200_000 {
            self.out.model_gap = Some("model step cap".into());
            return Err(Abrupt::Return(0));
        }
        match e {
            Expr::Int(v) => Ok(*v),
            Expr::Var(i) => Ok(f.i[*i as usize]),
            Expr::Param => Ok(f.param),
            Expr::LoopVar(l) => Ok(f.j[*l as usize]),
            Expr::ListSize => Ok(f.l0.len() as i64),
            Expr::Add(a, b) => {
                let a = self.eval(a, f)?;
                let b = self.eval(b, f)?;
                Ok(a.wrapping_add(b))
            }
            Expr::Tick(id, shape) => {
                self.out.ticks += 1;
                self.out.tick_ids.push(*id);
                let line = self.printed.tick_line[*id as usize];
                match self.plan.get(&self.out.ticks) {
                    None => Ok(*id as i64),
                    Some(kind) => {
                        self.out.fired += 1;
                        let kind = match (kind, shape) {
                            (FaultKind::BadVal, TickShape::Plain) => FaultKind::HostErr,
                            (k, _) => *k,
                        };
                        Err(match kind {
                            FaultKind::HostErr => self.throw(
                                Thrown::Runtime(format!("tickfail {id}")),
                                line,
                                "HostErr",
                            ),
                            FaultKind::HostThrow(k) => {
                                self.throw(Thrown::Typed(k, *id as i64), line, "HostThrow")
                            }
                            FaultKind::BadVal => match shape {
                                TickShape::GenAdd => {
                                    // raised by the Add right after the generator's first yield
                                    let gay_line = self.printed.gay_line;
                                    let mut a = self.throw(
                                        Thrown::Runtime(ERR_ADD.into()),
                                        gay_line,
                                        "BadVal:AddAfterYield",
                                    );
                                    if let Abrupt::Throw(t) = &mut a {
                                        t.crossed_opaque = true;
                                    }
                                    a
                                }
                                TickShape::Add => {
                                    self.throw(Thrown::Runtime(ERR_ADD.into()), line, "BadVal:Add")
                                }
                                TickShape::Index => self.throw(
                                    Thrown::Runtime(ERR_INDEX.into()),
                                    line,
                                    "BadVal:Index",
                                ),
                                TickShape::Plain => unreachable!(),
                            },
                        })
                    }
                }
            }
            Expr::Call(c) => self.call(c, f),
        }
    }

    /// One invocation of function `func` with argument `a`, reached from a call site on `line`
    /// through `conduit`
    fn invoke(&mut self, func: usize, a: i64, line: u32, conduit: Conduit) -> Exec<i64> {
        let mut frame = Frame {
            param: a,
            ..Default::default()
        };
        self.conduit_stack.push(conduit);
        let p = self.p;
        let r = self.exec_func_body(&p.funcs[func], &mut frame, 2000 + func as u32);
        self.conduit_stack.pop();
        match r {
            Ok(v) => Ok(v),
            Err(Abrupt::Return(v)) => Ok(v),
            Err(Abrupt::Throw(mut t)) => {
                if conduit == Conduit::KotoRun && !t.crossed_opaque {
                    // the call sits on line 1 of the snippet's own chunk, the snippet is run
                    // by the `koto.run` call on the statement's line
                    t.call_lines.push(FOREIGN_BASE + t.foreign.len() as u32);
                    t.foreign.push(format!("f{func}({a})"));
                    t.call_lines.push(line);
                } else if conduit.is_plain_frame() && !t.crossed_opaque {
                    if conduit == Conduit::Method {
                        // OBJ.m calls f from a one-line method: an extra frame on that line
                        t.crossed_opaque = true;
                    } else {
                        t.call_lines.push(line);
                    }
                } else {
                    t.crossed_opaque = true;
                }
                Err(Abrupt::Throw(t))
            }
            Err(other) => {
                self.out.model_gap = Some("break/continue escaped a function".into());
                Err(other)
            }
        }
    }

    fn call(&mut self, c: &Call, f: &mut Frame) -> Exec<i64> {
        let line = self.printed.call_line[c.site as usize];
        if c.conduit == Conduit::Plain && c.drop_arg {
            // `f()`: the argument expression is not part of the program text
            return Err(self.throw(Thrown::Runtime(ERR_ARGC.into()), line, "Argc"));
        }
        let a = self.eval(&c.arg, f)?;
        let func = c.func;
        let big = |v: i64| v > -100_000;
        match c.conduit {
            Conduit::Plain => {
                if c.drop_arg {
                    return Err(self.throw(Thrown::Runtime(ERR_ARGC.into()), line, "Argc"));
                }
                self.invoke(func, a, line, c.conduit)
            }
            Conduit::Piped | Conduit::Method | Conduit::MapUpdate | Conduit::KotoRun => {
                self.invoke(func, a, line, c.conduit)
            }
            Conduit::OpAdd | Conduit::OpIndex | Conduit::OpCall => {
                self.invoke(func, a, line, c.conduit)
            }
            Conduit::OpNegate | Conduit::OpSize => self.invoke(func, 0, line, c.conduit),
            Conduit::OpLess | Conduit::OpEqInList => {
                let r = self.invoke(func, a, line, c.conduit)?;
                Ok(big(r) as i64)
            }
            Conduit::OpGe => {
                // `a >= b` is derived as `not (a < b)`
                let less = big(self.invoke(func, a, line, c.conduit)?);
                Ok(!less as i64)
            }
            Conduit::OpLe | Conduit::OpGt => {
                // derived from `@<` (here: f(other) < -100000) and then `@==` (f(other + 1) > …)
                let less = self.invoke(func, a, line, c.conduit)? < -100_000;
                let le = less || big(self.invoke(func, a.wrapping_add(1), line, c.conduit)?);
                Ok(if c.conduit == Conduit::OpLe { le } else { !le } as i64)
            }
            Conduit::OpNe => {
                let eq = big(self.invoke(func, a, line, c.conduit)?);
                Ok(!eq as i64)
            }
            Conduit::Display => {
                let r = self.invoke(func, 0, line, c.conduit)?;
                Ok(3 + r.to_string().len() as i64)
            }
            Conduit::DisplayInList => {
                let r = self.invoke(func, 0, line, c.conduit)?;
                Ok(5 + r.to_string().len() as i64)
            }
            Conduit::Chain(ad, co) if co == crate::simlang::CHAIN_FOR => {
                for step in crate::simlang::CHAIN_FOR_SCRIPTS[ad as usize].chars() {
                    match step {
                        'A' => {
                            self.invoke(func, a, line, c.conduit)?;
                        }
                        'B' => {
                            self.invoke(func, a.wrapping_add(1), line, c.conduit)?;
                        }
                        _ => self.out.markers.push(77),
                    }
                }
                Ok(0)
            }
            Conduit::GenAgain => {
                for (arg, done, mark) in [(a, 10, 78), (a.wrapping_add(1), 11, 79)] {
                    match self.invoke(func, arg, line, c.conduit) {
                        Ok(_) => self.out.markers.push(mark),
                        Err(Abrupt::Throw(t)) => {
                            // caught by the helper; the generator is finished from then on
                            self.out.caught.push((0, t.thrown.class()));
                            self.out.caught_runtime.push(matches!(t.thrown, Thrown::Runtime(_)));
                            self.out.sig.push("generator-pulled-again-after-failure".into());
                            return Ok(done);
                        }
                        Err(other) => return Err(other),
                    }
                }
                Ok(2)
            }
            Conduit::Native2(k) if crate::simlang::NATIVE2[k as usize].0 == "C_RESIZEGL" => {
                let r1 = self.invoke(func, a, line, c.conduit)?;
                self.gl.push(r1);
                let r2 = self.invoke(func, a, line, c.conduit)?;
                self.gl.push(r2);
                Ok(0)
            }
            Conduit::Chain(..) | Conduit::Native2(_) => {
                self.invoke(func, a, line, c.conduit)?;
                self.invoke(func, a.wrapping_add(1), line, c.conduit)?;
                Ok(0)
            }
            Conduit::Each | Conduit::Transform | Conduit::SortKey => {
                self.invoke(func, a, line, c.conduit)?;
                self.invoke(func, a.wrapping_add(1), line, c.conduit)?;
                Ok(2)
            }
            Conduit::Keep | Conduit::Retain => {
                let r1 = self.invoke(func, a, line, c.conduit)?;
                let r2 = self.invoke(func, a.wrapping_add(1), line, c.conduit)?;
                Ok(big(r1) as i64 + big(r2) as i64)
            }
            Conduit::Fold | Conduit::GenFor | Conduit::GenFold => {
                let r1 = self.invoke(func, a, line, c.conduit)?;
                let r2 = self.invoke(func, a.wrapping_add(1), line, c.conduit)?;
                Ok(r1.wrapping_add(r2))
            }
            Conduit::Find => {
                let r1 = self.invoke(func, a, line, c.conduit)?;
                if big(r1) {
                    return Ok(a);
                }
                let r2 = self.invoke(func, a.wrapping_add(1), line, c.conduit)?;
                if big(r2) {
                    Ok(a.wrapping_add(1))
                } else {
                    self.out.model_gap = Some("find returned null".into());
                    Ok(0)
                }
            }
            Conduit::GenNext => self.invoke(func, a, line, c.conduit),
            Conduit::FoldTraced | Conduit::OpAddTraced | Conduit::GenLocalFor => {
                // all frames on the path are Koto frames on known lines: innermost first
                let (inner, outer): (u32, Option<u32>) = match c.conduit {
                    Conduit::FoldTraced => (self.printed.foldt_lines.1, Some(self.printed.foldt_lines.0)),
                    Conduit::OpAddTraced => (self.printed.opt_inner_line[func], None),
                    _ => (self.printed.gen_yield_line[func], Some(self.printed.gensuml_for_line[func])),
                };
                let args: &[i64] = if c.conduit == Conduit::OpAddTraced { &[0] } else { &[0, 1] };
                let mut sum = 0i64;
                for d in args {
                    self.conduit_stack.push(c.conduit);
                    let r = self.invoke(func, a.wrapping_add(*d), inner, Conduit::Plain);
                    self.conduit_stack.pop();
                    match r {
                        Ok(v) => sum = sum.wrapping_add(v),
                        Err(Abrupt::Throw(mut t)) => {
                            if !t.crossed_opaque {
                                if let Some(o) = outer {
                                    t.call_lines.push(o);
                                }
                                t.call_lines.push(line);
                            }
                            return Err(Abrupt::Throw(t));
                        }
                        Err(o) => return Err(o),
                    }
                }
                Ok(sum)
            }
            Conduit::OpIterator => {
                let r1 = self.invoke(func, 0, line, c.conduit)?;
                let r2 = self.invoke(func, 1, line, c.conduit)?;
                Ok(r1.wrapping_add(r2))
            }
            Conduit::GenYieldInTry => {
                // for x in a..=a+1: try { yield f(x); yield f(x + 10) } catch e { yield -1 }
                let mut sum = 0i64;
                for x in [a, a.wrapping_add(1)] {
                    for arg in [x, x.wrapping_add(10)] {
                        match self.invoke(func, arg, line, c.conduit) {
                            Ok(v) => sum = sum.wrapping_add(v),
                            Err(Abrupt::Throw(t)) => {
                                self.out.caught.push((0, t.thrown.class()));
                                self.out.caught_runtime.push(matches!(t.thrown, Thrown::Runtime(_)));
                                self.out.sig.push("caught-in-suspended-generator-frame".into());
                                sum = sum.wrapping_add(-1);
                                break; // the rest of the try block is skipped
                            }
                            Err(other) => return Err(other),
                        }
                    }
                }
                Ok(sum)
            }
            Conduit::GenCatchFor => {
                // the generator itself catches whatever f throws and yields -1 instead
                let mut sum = 0i64;
                for x in [a, a.wrapping_add(1)] {
                    match self.invoke(func, x, line, c.conduit) {
                        Ok(v) => sum = sum.wrapping_add(v),
                        Err(Abrupt::Throw(t)) => {
                            self.out.caught.push((0, t.thrown.class()));
                            self.out.caught_runtime.push(matches!(t.thrown, Thrown::Runtime(_)));
                            self.out.sig.push("caught-in-generator".into());
                            sum = sum.wrapping_add(-1);
                        }
                        Err(other) => return Err(other),
                    }
                }
                Ok(sum)
            }
        }
    }

    fn cond(&mut self, c: &Cond, f: &mut Frame) -> Exec<bool> {
        Ok(match c {
            Cond::Eq(e, v) => self.eval(e, f)? == *v,
            Cond::Gt(e, v) => self.eval(e, f)? > *v,
        })
    }

    fn dump(&mut self, n: u32, f: &Frame) {
        self.out.dumps.push(format!(
            "{n}:{}|{}|{}|{}|{}|{}|{}|{{ga: 1, gb: 2}}",
            f.i[0],
            f.i[1],
            f.i[2],
            f.s0,
            fmt_list(&f.l0),
            fmt_map(&f.m0),
            fmt_list(&self.gl)
        ));
    }

    fn exec_func_body(&mut self, func: &Func, f: &mut Frame, dump_id: u32) -> Exec<i64> {
        self.exec_block(&func.body, f)?;
        self.dump(dump_id, f);
        self.eval(func.ret.as_ref().unwrap(), f)
    }

    /// Returns the block's tail value if it has one
    fn exec_block(&mut self, b: &Block, f: &mut Frame) -> Exec<Option<i64>> {
        for s in &b.stmts {
            self.exec_stmt(s, f)?;
        }
        match &b.tail {
            Some(e) => Ok(Some(self.eval(e, f)?)),
            None => Ok(None),
        }
    }

    /// the first source line of a statement (0 = unknown)
    fn stmt_line(&self, s: &Stmt) -> u32 {
        self.printed
            .stmt_line
            .get(&(s as *const Stmt as usize))
            .copied()
            .unwrap_or(0)
    }

    fn exec_stmt(&mut self, s: &Stmt, f: &mut Frame) -> Exec<()> {
        self.steps += 1;
        match s {
            Stmt::Mark(n) => self.out.markers.push(*n),
            Stmt::Assign(v, e) => {
                let x = self.eval(e, f)?;
                f.i[*v as usize] = x;
            }
            Stmt::AssignStr(parts) => {
                let mut t = String::new();
                for p in parts {
                    match p {
                        StrPart::Text(x) => t.push_str(x),
                        StrPart::Int(e) => t.push_str(&self.eval(e, f)?.to_string()),
                    }
                }
                f.s0 = t;
            }
            Stmt::AssignList(es) => {
                let mut l = vec![];
                for e in es {
                    l.push(self.eval(e, f)?);
                }
                f.l0 = l;
            }
            Stmt::Push(e) => {
                let x = self.eval(e, f)?;
                f.l0.push(x);
            }
            Stmt::GlobalPush(e) => {
                let x = self.eval(e, f)?;
                self.gl.push(x);
            }
            Stmt::MapSet(k, e) => {
                let x = self.eval(e, f)?;
                if let Some(entry) = f.m0.iter_mut().find(|(kk, _)| kk == k) {
                    entry.1 = x;
                } else {
                    f.m0.push((*k, x));
                }
            }
            Stmt::Print(e) => {
                let x = self.eval(e, f)?;
                self.out.io_ops += 1;
                if self.plan.contains_key(&(IO_BASE + self.out.io_ops)) {
                    // the write fails before anything reaches the sink
                    self.out.fired += 1;
                    let mut a = self.throw(Thrown::Runtime(ERR_IO.into()), 0, "IoFail");
                    if let Abrupt::Throw(t) = &mut a {
                        t.crossed_opaque = true;
                    }
                    return Err(a);
                }
                self.out.stdout.push_str(&format!("{x}\n"));
            }
            Stmt::If(c, t, e) => {
                if self.cond(c, f)? {
                    self.exec_block(t, f)?;
                } else {
                    self.exec_block(e, f)?;
                }
            }
            Stmt::For(level, n, body) | Stmt::While(level, n, body) => {
                for j in 0..*n as i64 {
                    f.j[*level as usize] = j;
                    match self.exec_block(body, f) {
                        Ok(_) => {}
                        Err(Abrupt::Break) => break,
                        Err(Abrupt::Continue) => continue,
                        Err(other) => return Err(other),
                    }
                }
            }
            Stmt::Break => return Err(Abrupt::Break),
            Stmt::Continue => return Err(Abrupt::Continue),
            Stmt::Return(e) => {
                let x = self.eval(e, f)?;
                return Err(Abrupt::Return(x));
            }
            Stmt::Throw(ThrowKind::Str(n)) => {
                let line = self.stmt_line(s);
                return Err(self.throw_stmt(Thrown::Str(format!("E{n}")), line));
            }
            Stmt::Throw(ThrowKind::Typed(k, e)) | Stmt::Throw(ThrowKind::TypedLayout(k, e, _)) => {
                let c = self.eval(e, f)?;
                // (a throw is reported on the line of the `throw` keyword, wherever its
                // operand ends)
                let line = self.stmt_line(s);
                return Err(self.throw_stmt(Thrown::Typed(*k, c), line));
            }
            Stmt::Throw(ThrowKind::Num(e)) => {
                let c = self.eval(e, f)?;
                let line = self.stmt_line(s);
                return Err(self.throw_stmt(Thrown::Num(c), line));
            }
            Stmt::Throw(ThrowKind::Plain(e)) => {
                let c = self.eval(e, f)?;
                let line = self.stmt_line(s);
                return Err(self.throw_stmt(Thrown::Plain(c), line));
            }
            Stmt::Try(t) => self.exec_try(t, f)?,
            Stmt::Dump(n) => self.dump(*n, f),
            Stmt::Expr(e) => {
                self.eval(e, f)?;
            }
            Stmt::MapIndexBadKey => {
                // index 0 must exist, otherwise the index itself is rejected first
                let class = if f.m0.is_empty() { "invalid index (0)" } else { ERR_UNHASHABLE };
                let line = self.stmt_line(s);
                let mut a = self.throw(Thrown::Runtime(class.into()), line, "MapIndexBadKey");
                if let Abrupt::Throw(t) = &mut a
                    && line == 0
                {
                    t.crossed_opaque = true;
                }
                return Err(a);
            }
            Stmt::NativeOpFail(k) => {
                let (_, msg, extra_frames) = crate::simlang::NATIVE_OP_FAILS[*k as usize];
                let line = self.stmt_line(s);
                let mut a = self.throw(Thrown::Runtime(msg.into()), line, "NativeOpFail");
                if let Abrupt::Throw(t) = &mut a {
                    if line == 0 {
                        t.crossed_opaque = true;
                    }
                    for _ in 0..extra_frames {
                        t.call_lines.push(line);
                    }
                }
                return Err(a);
            }
            Stmt::ImportStep(v, ok) => {
                f.i[*v as usize] = 42;
                if *ok && !okmod_loaded() {
                    // the module's top level runs once per runtime
                    self.out.markers.push(4242);
                    set_okmod_loaded(true);
                }
                if !*ok {
                    self.out.error_occurred = true;
                    self.out.sig.push("failed-import-caught".into());
                }
            }
            Stmt::Fall(..) | Stmt::Misc(_) => {}
            Stmt::PreludeFail(k) => {
                let (_, frames, _, msg, thrown_string) = crate::simlang::PRELUDE_FAILS[*k as usize];
                let base = self.printed.prelude_fail_line[*k as usize];
                let line = self.stmt_line(s);
                let thrown = if thrown_string { Thrown::Str(msg.into()) } else { Thrown::Runtime(msg.into()) };
                let mut a = self.throw(thrown, base + frames[0], "PreludeFail");
                if let Abrupt::Throw(t) = &mut a {
                    for off in &frames[1..] {
                        t.call_lines.push(base + off);
                    }
                    if line == 0 {
                        t.crossed_opaque = true;
                    } else {
                        t.call_lines.push(line);
                    }
                }
                return Err(a);
            }
            Stmt::AssignOrThrow(v, cexp, e, n, form) => {
                let cv = self.eval(cexp, f)?;
                let throws = if *form == 0 { cv <= 0 } else { cv == 0 };
                if throws {
                    let line = match self.stmt_line(s) {
                        0 => 0,
                        l => l + *form as u32,
                    };
                    return Err(self.throw_stmt(Thrown::Str(format!("E{n}")), line));
                }
                let x = self.eval(e, f)?;
                f.i[*v as usize] = x;
            }
            Stmt::SortFailKeeps(v) => {
                f.i[*v as usize] = 3;
                self.out.error_occurred = true;
                self.out.sig.push("sort-fails".into());
            }
            Stmt::GlobalMapBadKey => {
                let line = self.stmt_line(s);
                let mut a = self.throw(Thrown::Runtime(ERR_UNHASHABLE.into()), line, "GlobalMapBadKey");
                if let Abrupt::Throw(t) = &mut a
                    && line == 0
                {
                    t.crossed_opaque = true;
                }
                return Err(a);
            }
            Stmt::Tiny(v, k, bad) => {
                f.i[*v as usize] = if *bad { -1 } else { crate::simlang::TINY[*k as usize].2 };
                if *bad {
                    self.out.error_occurred = true;
                    self.out.sig.push(format!("tiny:{k}"));
                }
            }
            Stmt::Storm(v, _, n) => {
                // every iteration fails and is caught on the spot
                f.i[*v as usize] = f.i[*v as usize].wrapping_add(*n as i64);
                self.out.error_occurred = true;
                self.out.sig.push("storm".into());
                self.out.storm_iterations += *n as u64;
            }
            Stmt::Calm(v, _, n) => {
                // every iteration completes; `xx` ends up with the expected value
                f.i[*v as usize] = f.i[*v as usize].wrapping_add(1);
                self.out.sig.push("calm".into());
                self.out.storm_iterations += *n as u64;
            }
            Stmt::LoopTryBreak(v, id, pre, val, handler) => {
                let r = match self.exec_block(pre, f) {
                    Ok(_) => self.eval(val, f),
                    Err(a) => Err(a),
                };
                match r {
                    Ok(x) => f.i[*v as usize] = x,
                    Err(Abrupt::Throw(info)) => {
                        self.out.caught.push((*id, info.thrown.class()));
                        self.out.caught_runtime.push(matches!(info.thrown, Thrown::Runtime(_)));
                        self.out.sig.push("caught:break-value-in-try".into());
                        self.exec_block(handler, f)?;
                        f.i[*v as usize] = -7;
                    }
                    Err(other) => return Err(other),
                }
                self.dump(1000 + *id, f);
            }
            Stmt::AddAssign(v, e) => {
                let x = self.eval(e, f)?;
                f.i[*v as usize] = f.i[*v as usize].wrapping_add(x);
            }
            Stmt::ChainAssign(v, e) => {
                // the continuation line is a callback of a native adaptor
                let r = self.eval(e, f);
                match r {
                    Ok(x) => f.i[*v as usize] = x,
                    Err(Abrupt::Throw(mut t)) => {
                        t.crossed_opaque = true;
                        return Err(Abrupt::Throw(t));
                    }
                    Err(o) => return Err(o),
                }
            }
            Stmt::MatchAssign(v, e, e2) => {
                let x = self.eval(e, f)?;
                f.i[*v as usize] = if x == 0 { 10 } else { self.eval(e2, f)? };
            }
            Stmt::KeyChainCall(v, func, arg, site, _) => {
                let a = self.eval(arg, f)?;
                let line = self.printed.call_line[*site as usize];
                f.i[*v as usize] = self.invoke(*func, a, line, Conduit::Plain)?;
            }
            Stmt::AssignLambdaCall(v, func, arg, site) => {
                let a = self.eval(arg, f)?;
                let stmt_line = self.printed.call_line[*site as usize];
                let inner_line = self.printed.lambda_call_line.get(site).copied().unwrap_or(0);
                self.conduit_stack.push(Conduit::Plain);
                let r = self.invoke(*func, a, inner_line, Conduit::Plain);
                self.conduit_stack.pop();
                match r {
                    Ok(x) => f.i[*v as usize] = x,
                    Err(Abrupt::Throw(mut t)) => {
                        if !t.crossed_opaque {
                            // function literal -> C_APPLY -> the statement
                            t.call_lines.push(self.printed.apply_line);
                            t.call_lines.push(stmt_line);
                        }
                        return Err(Abrupt::Throw(t));
                    }
                    Err(other) => return Err(other),
                }
            }
        }
        Ok(())
    }

    fn throw_stmt(&mut self, thrown: Thrown, line: u32) -> Abrupt {
        let mut a = self.throw(thrown, line, "throw");
        if let Abrupt::Throw(t) = &mut a
            && line == 0
        {
            // the statement's line is not known (the model runs on a clone of the program)
            t.crossed_opaque = true;
        }
        a
    }

    fn exec_try(&mut self, t: &Try, f: &mut Frame) -> Exec<()> {
        if let (Some(pre), Some(_)) = (&t.tuple_prefix, t.result) {
            // the first element of the tuple is evaluated before the try expression
            self.eval(pre, f)?;
        }
        let mut r = self.exec_block(&t.body, f);
        if let Err(Abrupt::Throw(info)) = &r {
            let th = info.thrown.clone();
            let ix = t
                .catches
                .iter()
                .position(|c| match (&c.kind, &th) {
                    (CatchKind::Any, _) => true,
                    (CatchKind::String, Thrown::Str(_) | Thrown::Runtime(_)) => true,
                    (CatchKind::Number, Thrown::Num(_)) => true,
                    (CatchKind::Typed(k), Thrown::Typed(k2, _)) => k == k2,
                    (CatchKind::MapCode | CatchKind::MapCodeNum, Thrown::Typed(..) | Thrown::Plain(_)) => true,
                    (CatchKind::StringOpt, Thrown::Str(_) | Thrown::Runtime(_)) => true,
                    (CatchKind::TypedOpt(k), Thrown::Typed(k2, _)) => k == k2,
                    (CatchKind::MapCodeTyped(k), Thrown::Typed(k2, _)) => k == k2,
                    _ => false,
                });
            if let Some(ix) = ix {
                let shown = match (&t.catches[ix].kind, &th) {
                    // the pattern binds the entry, not the thrown map
                    (CatchKind::MapCode | CatchKind::MapCodeTyped(_) | CatchKind::MapCodeNum, Thrown::Typed(_, c) | Thrown::Plain(c)) => c.to_string(),
                    _ => th.class(),
                };
                self.out.caught.push((t.id, shown));
                self.out.caught_runtime.push(matches!(th, Thrown::Runtime(_)));
                self.out.sig.push(format!(
                    "caught:{}",
                    match t.catches[ix].kind {
                        CatchKind::Any => "any",
                        CatchKind::String | CatchKind::StringOpt => "string",
                        CatchKind::Number => "number",
                        CatchKind::Typed(_) | CatchKind::TypedOpt(_) => "typed",
                        CatchKind::NeverLocal(_) => "never",
                        CatchKind::MapCode
                        | CatchKind::MapCodeTyped(_)
                        | CatchKind::MapMissing
                        | CatchKind::MapCodeNum
                        | CatchKind::MapCodeCount => "map-pattern",
                    }
                ));
                r = self.exec_block(&t.catches[ix].block, f);
                if r.is_err() {
                    self.out.sig.push("abrupt-from-catch".into());
                }
            } else {
                // no catch block of this try accepts the value (the last one is a map pattern):
                // the error goes on to the next enclosing handler
                self.out.sig.push("no-catch-accepts".into());
                if let Err(Abrupt::Throw(info)) = &mut r {
                    // it is thrown again from the catch argument: the original position is gone
                    info.origin_line = 0;
                    info.call_lines.clear();
                    info.foreign.clear();
                    info.crossed_opaque = true;
                    info.rethrown = true;
                }
            }
        }
        if let Some(fin) = &t.finally {
            let abrupt = r.is_err();
            if abrupt {
                self.out.abrupt_exit_through_finally = true;
            }
            if !abrupt || self.opts.finally_on_abrupt_exit {
                let fr = self.exec_block(fin, f);
                match fr {
                    Err(a) => return Err(a),
                    Ok(v) => {
                        if let Ok(slot) = &mut r {
                            // the finally block provides the expression's value
                            *slot = v;
                        }
                    }
                }
            }
        }
        match r {
            Ok(v) => {
                if let (Some(var), Some(v)) = (t.result, v) {
                    f.i[var as usize] = v;
                }
                self.dump(1000 + t.id, f);
                Ok(())
            }
            Err(a) => Err(a),
        }
    }
}
