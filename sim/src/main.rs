//! kotosim — deterministic simulation with fault injection for koto.
//!
//! usage: kotosim <engine> [--tier quick|thorough] [--seed N] [--runs N] [--seconds S]
//!                [--threads N] [--keep-going] [--digests FILE] [--evidence FILE]
//!        kotosim replay <file>

mod campaign;
mod clocksim;
mod compsim;
mod histsim;
mod host;
mod known;
mod linz;
mod locksim;
mod modsim;
mod rng;
mod sched;
mod simio;
mod simlang;
mod simmodel;
mod unwindsim;
mod vclock;

use campaign::{CampaignConfig, CampaignResult, Worker};
use serde_json::{Map, Value, json};

pub struct Args {
    pub engine: String,
    pub tier: String,
    pub seed: u64,
    pub runs: Option<u64>,
    pub seconds: Option<f64>,
    pub threads: usize,
    pub keep_going: bool,
    pub strict: bool,
    pub digests: Option<String>,
    pub evidence: Option<String>,
    pub replay: Option<String>,
    pub known: String,
    pub replay_dir: String,
    pub regress_dir: String,
    pub rest: Vec<String>,
}

fn parse_args() -> Args {
    let argv: Vec<String> = std::env::args().skip(1).collect();
    if argv.is_empty() {
        eprintln!("usage: kotosim <engine|replay> [options]");
        std::process::exit(2);
    }
    let mut a = Args {
        engine: argv[0].clone(),
        tier: std::env::var("VERIF_TIER").unwrap_or_else(|_| "quick".into()),
        seed: std::env::var("VERIF_SEED")
            .ok()
            .and_then(|s| s.parse().ok())
            .unwrap_or(1),
        runs: None,
        seconds: None,
        threads: std::thread::available_parallelism().map(|n| n.get()).unwrap_or(4),
        keep_going: false,
        strict: false,
        digests: None,
        evidence: None,
        replay: None,
        known: "/verif/known_findings.json".into(),
        replay_dir: "/verif/replays".into(),
        regress_dir: "/verif/regress".into(),
        rest: vec![],
    };
    let mut i = 1;
    while i < argv.len() {
        let next = |i: &mut usize| -> String {
            *i += 1;
            argv.get(*i).cloned().unwrap_or_else(|| {
                eprintln!("missing value for {}", argv[*i - 1]);
                std::process::exit(2)
            })
        };
        match argv[i].as_str() {
            "--tier" => a.tier = next(&mut i),
            "--seed" => a.seed = next(&mut i).parse().expect("seed"),
            "--runs" => a.runs = Some(next(&mut i).parse().expect("runs")),
            "--seconds" => a.seconds = Some(next(&mut i).parse().expect("seconds")),
            "--threads" => a.threads = next(&mut i).parse().expect("threads"),
            "--keep-going" => a.keep_going = true,
            "--strict" => a.strict = true,
            "--digests" => a.digests = Some(next(&mut i)),
            "--evidence" => a.evidence = Some(next(&mut i)),
            "--known" => a.known = next(&mut i),
            "--replay-dir" => a.replay_dir = next(&mut i),
            "--regress-dir" => a.regress_dir = next(&mut i),
            other => {
                if a.engine == "replay" && a.replay.is_none() {
                    a.replay = Some(other.to_string());
                } else {
                    a.rest.push(other.to_string());
                }
            }
        }
        i += 1;
    }
    a
}

pub fn components() -> Value {
    json!({
        "real": [
            "koto lexer", "koto parser", "koto bytecode compiler", "koto VM (execute_instructions, unwinding, ExecutionTimeout)",
            "koto core library", "koto facade (Koto::compile_and_run / call_function / value_to_string)",
            "koto_memory (Rc/RefCell or Arc/parking_lot::RwLock, the real lock is really taken)",
            "module loader on a real scratch directory"
        ],
        "stub": [
            "clock: SimInstant reading the simulator's virtual clock (hook H2)",
            "stdout/stderr/stdin: SimFile behind the KotoFile seam",
            "host fault-point natives (tick/val/mark/caught/slow) behind the native function seam",
            "OS thread scheduling: baton scheduler at every lock acquisition (hook H1, locksim only)",
            "waiting policy of parking_lot::RwLock: modelled in the scheduler, validated against the real lock (locksim only)"
        ]
    })
}

fn finish(cfg: &CampaignConfig, res: &CampaignResult, evidence: Value, evidence_path: &Option<String>) -> ! {
    if let Some(p) = evidence_path {
        if let Some(dir) = std::path::Path::new(p).parent() {
            let _ = std::fs::create_dir_all(dir);
        }
        std::fs::write(p, serde_json::to_string_pretty(&evidence).unwrap()).expect("write evidence");
    }
    println!(
        "{} {}: runs={} executions={} distinct_nontrivial={} wall={:.1}s digest={:016x}",
        cfg.property, cfg.engine, res.runs, res.executions, res.distinct, res.wall_s, res.digest_of_digests
    );
    if !res.class_histogram.is_empty() {
        println!("violation classes seen (incl. known): {:?}", res.class_histogram);
    }
    if res.inconclusive > 0 {
        println!("inconclusive runs: {} (not violations; see evidence)", res.inconclusive);
        for e in res.inconclusive_examples.iter().take(2) {
            println!("  e.g. {}", e.chars().take(300).collect::<String>().replace('\n', " / "));
        }
    }
    if let Some(e) = &res.harness_error {
        println!("HARNESS-ERROR engine={} {e}", cfg.engine);
        std::process::exit(2);
    }
    for (id, n) in &res.known_hits {
        println!("known-finding-hits id={id} runs={n}");
    }
    if !res.violations.is_empty() {
        for (class, detail, path) in &res.violations {
            println!("VIOLATION property={} replay={}", cfg.property, path);
            println!("  class={class} detail={detail}");
        }
        std::process::exit(1);
    }
    std::process::exit(0);
}

/// Replays one file with the engine named in it; returns (violation, digest)
fn replay_doc(doc: &Value) -> (Option<(String, String)>, u64) {
    let engine = doc["engine"].as_str().unwrap_or("");
    match engine {
        "clocksim" => {
            let (v, d) = clocksim::replay(doc);
            (v.map(|v| (v.class, v.detail)), d)
        }
        #[cfg(feature = "arc")]
        "locksim" => {
            let (v, d) = locksim::replay(doc);
            (v.map(|v| (v.class, v.detail)), d)
        }
        "unwindsim" => {
            let (v, d) = unwindsim::replay(doc);
            (v.map(|v| (v.class, v.detail)), d)
        }
        "histsim" => histsim::replay(doc),
        "modsim" => modsim::replay(doc),
        "compsim" => compsim::replay(doc),
        "seqsim" => locksim::replay_sequential(doc),
        other => {
            eprintln!("unknown engine in replay file (or not built into this binary): {other}");
            std::process::exit(2);
        }
    }
}

/// Open known findings of an engine: each stored scenario is replayed; while it still violates
/// with the recorded class the check prints a KNOWN-FINDING line (and exits 0 as far as this
/// finding is concerned). Nothing is printed once it no longer violates.
fn report_known_findings(engine: &str, property: &str, known: &known::KnownFindings, known_path: &str) {
    for f in known.open_for(engine) {
        if f.property != property {
            continue;
        }
        let Some(replay) = &f.replay else { continue };
        // replay paths in the known-findings file are relative to the directory that holds it
        let base = std::path::Path::new(known_path).parent().unwrap_or(std::path::Path::new("/verif"));
        let path = base.join(replay).to_string_lossy().to_string();
        let Ok(text) = std::fs::read_to_string(&path) else {
            println!("HARNESS-ERROR known finding {} has no readable replay file {path}", f.id);
            std::process::exit(2);
        };
        let doc: Value = serde_json::from_str(&text).expect("known finding replay JSON");
        if let (Some((class, _)), _) = replay_doc(&doc)
            && f.class.split('|').any(|c| c == class)
        {
            println!("KNOWN-FINDING: property={} {} [{}; replay {}]", f.property, f.what, f.id, path);
        }
    }
}

/// The regression set: stored minimised scenarios of repaired defects. Each is executed at the
/// start of every check of its engine; a violation is reported like any other.
/// Returns (replayed, violations as (class, detail, path)).
fn run_regressions(engine: &str, property: &str, dir: &str) -> (u64, Vec<(String, String, String)>) {
    let mut n = 0;
    let mut out = vec![];
    let Ok(rd) = std::fs::read_dir(dir) else {
        return (0, out);
    };
    let mut paths: Vec<_> = rd.flatten().map(|e| e.path()).collect();
    paths.sort();
    for p in paths {
        if p.extension().and_then(|e| e.to_str()) != Some("json") {
            continue;
        }
        let Ok(text) = std::fs::read_to_string(&p) else { continue };
        let Ok(doc) = serde_json::from_str::<Value>(&text) else { continue };
        if doc["engine"].as_str() != Some(engine) || doc["property"].as_str() != Some(property) {
            continue;
        }
        n += 1;
        if let (Some((class, detail)), _) = replay_doc(&doc) {
            out.push((class, detail, p.to_string_lossy().to_string()));
        }
    }
    (n, out)
}

fn main() {
    let args = parse_args();
    host::install_quiet_panic_hook();

    if args.engine == "replay" {
        let path = args.replay.clone().expect("replay file");
        let text = std::fs::read_to_string(&path).expect("read replay file");
        let doc: Value = serde_json::from_str(&text).expect("replay JSON");
        let (violation, digest) = replay_doc(&doc);
        println!("replay digest={digest:016x}");
        match violation {
            Some((class, detail)) => {
                println!(
                    "VIOLATION property={} replay={}",
                    doc["property"].as_str().unwrap_or("?"),
                    path
                );
                println!("  class={class} detail={detail}");
                let expected = doc["violation"]["class"].as_str().unwrap_or("");
                if expected != class {
                    println!("  NOTE: class differs from recorded class {expected}");
                }
                std::process::exit(1);
            }
            None => {
                println!("no violation on replay");
                std::process::exit(0);
            }
        }
    }

    let known = known::KnownFindings::load(&args.known);
    let quick = args.tier != "thorough";

    match args.engine.as_str() {
        "unwindsim" => {
            let prop: &'static str = if args.rest.iter().any(|a| a == "C12") {
                "C12"
            } else if args.rest.iter().any(|a| a == "C05") {
                "C05"
            } else {
                "C04"
            };
            let cfg = CampaignConfig {
                engine: "unwindsim",
                property: prop,
                // C05 looks at other programs than the C04/C12 campaigns of the same VERIF_SEED
                base_seed: if prop == "C05" { args.seed ^ 0x5EED_0C05 } else { args.seed },
                runs: args.runs.unwrap_or(if quick { 20_000 } else { 600_000 }),
                max_seconds: args.seconds.unwrap_or(if quick { 60.0 } else { 900.0 }),
                threads: args.threads,
                keep_going: args.keep_going,
                strict: args.strict,
                digest_file: args.digests.clone(),
                replay_dir: args.replay_dir.clone(),
            };
            report_known_findings("unwindsim", prop, &known, &args.known);
            let (regress_n, regress_v) = run_regressions("unwindsim", prop, &args.regress_dir);
            let mut res = campaign::run_campaign(&cfg, |_t| {
                Box::new(unwindsim::UnwindWorker::new(known.clone(), prop)) as Box<dyn Worker>
            });
            res.violations.extend(regress_v);
            let mut extra = Map::new();
            extra.insert("regression_replays".into(), json!(regress_n));
            let ev = campaign::evidence_part(
                &cfg,
                &res,
                &args.tier,
                "fault_enumeration",
                "one run = one generated SimLang program; it is executed fault-free and then once per applicable fault kind at EVERY dynamic fault-point position (enumeration in the position dimension), plus seeded double/triple fault plans placed right after the first fault was handled; evaluations = executions on the real VM, each compared with the reference model; non-trivial = at least one fault fired or an error was raised; distinct = distinct sets of (error kind @ conduit stack, handler kind, exit path) signatures per program",
                "VM instructions",
                components(),
                vec![
                    "the reference model implements the documented unwinding semantics; its agreement with koto on error-free executions is re-checked on every run (disagreement there is a harness error, exit 2)".into(),
                ],
                extra,
            );
            finish(&cfg, &res, ev, &args.evidence);
        }
        "leak-test" => {
            // debug helper: execute a script file N times on fresh instances, print the resident size
            let text = std::fs::read_to_string(&args.rest[0]).expect("script");
            let n: u64 = args.rest.get(1).and_then(|s| s.parse().ok()).unwrap_or(20_000);
            let clock = host::install_clock();
            let rss = || -> u64 {
                std::fs::read_to_string("/proc/self/statm")
                    .ok()
                    .and_then(|s| s.split_whitespace().nth(1).and_then(|x| x.parse::<u64>().ok()))
                    .unwrap_or(0)
                    * 4
                    / 1024
            };
            let before = rss();
            for _ in 0..n {
                let _ = unwindsim::execute(&text, &Default::default(), &clock, 1_000_000);
            }
            println!("rss before {before} MB, after {n} executions {} MB", rss());
        }
        "run-script" => {
            // debug helper: run a script file on an instrumented instance, print result and H3 state
            let text = std::fs::read_to_string(&args.rest[0]).expect("script");
            let _clock = host::install_clock();
            let mut h = host::Host::new(host::HostSettings { run_tests: false, ..Default::default() });
            let ts: unwindsim::SharedTick = Default::default();
            unwindsim::add_sim_natives(&h, &ts);
            let r = h.koto.compile_and_run(&text);
            let r = host::render_result(&mut h.koto, r);
            println!("result: {r:?}");
            println!("markers: {:?}", h.take_log().markers);
            println!("stdout: {:?}", h.stdout.take_output());
            println!("state: {:?}", h.koto.verif_vm().verif_state());
        }
        "modsim-show" => {
            modsim::show(args.rest[0].parse().expect("run seed"));
        }
        "modsim" => {
            let cfg = CampaignConfig {
                engine: "modsim",
                property: "C18",
                base_seed: args.seed,
                runs: args.runs.unwrap_or(if quick { 15_000 } else { 1_500_000 }),
                max_seconds: args.seconds.unwrap_or(if quick { 60.0 } else { 900.0 }),
                threads: args.threads,
                keep_going: args.keep_going,
                strict: args.strict,
                digest_file: args.digests.clone(),
                replay_dir: args.replay_dir.clone(),
            };
            report_known_findings("modsim", "C18", &known, &args.known);
            let (regress_n, regress_v) = run_regressions("modsim", "C18", &args.regress_dir);
            let mut res = campaign::run_campaign(&cfg, |_t| {
                Box::new(modsim::ModWorker::new(known.clone())) as Box<dyn Worker>
            });
            res.violations.extend(regress_v);
            let mut extra = Map::new();
            extra.insert("regression_replays".into(), json!(regress_n));
            let ev = campaign::evidence_part(
                &cfg,
                &res,
                &args.tier,
                "exploration",
                "one run = one generated module graph (2-6 modules; DAGs, diamonds, cycles; file / directory / both forms; fault points, permanent failures and disk faults placed at modules) written to a scratch directory, plus a host history of 2-7 operations on one runtime (main scripts importing subsets in every import form incl. retries in the same scope, lazily importing exported functions, heal = rewrite a module file, clear_module_cache) with transient faults at seeded fault points; evaluations = host operations; non-trivial = at least one import failed somewhere; distinct = distinct sets of cache events (cache hit, module completed/failed by class, cycle, failure caught in script) x disk forms",
                "import operations",
                components(),
                vec![
                    "the reference model is the documented contract: resolution order, run-once, cycle errors, rollback, re-import after failure, clear_module_cache => recompile and re-run".into(),
                    "healing by rewriting a file whose chunk is already in the loader takes effect after clear_module_cache (documented); the generator never breaks a file after it was loaded".into(),
                ],
                extra,
            );
            finish(&cfg, &res, ev, &args.evidence);
        }
        "compsim-show" => {
            compsim::show(
                args.rest[0].parse().expect("run seed"),
                args.rest.get(1).and_then(|s| s.parse().ok()).unwrap_or(u64::MAX),
            );
        }
        "compsim" => {
            if !compsim::seam_alive() {
                println!("HARNESS-ERROR engine=compsim the hash seam (hook H4) does not change iteration order: nothing can be decided");
                std::process::exit(2);
            }
            let corpus = std::sync::Arc::new(compsim::load_corpus());
            if corpus.len() < 50 {
                println!("HARNESS-ERROR engine=compsim only {} corpus programs found under {}", corpus.len(), compsim::repo_dir());
                std::process::exit(2);
            }
            let cfg = CampaignConfig {
                engine: "compsim",
                property: "C05",
                base_seed: args.seed,
                runs: args.runs.unwrap_or(if quick { 300_000 } else { 20_000_000 }),
                max_seconds: args.seconds.unwrap_or(if quick { 60.0 } else { 600.0 }),
                threads: args.threads,
                keep_going: args.keep_going,
                strict: args.strict,
                digest_file: args.digests.clone(),
                replay_dir: args.replay_dir.clone(),
            };
            report_known_findings("compsim", "C05", &known, &args.known);
            let (regress_n, regress_v) = run_regressions("compsim", "C05", &args.regress_dir);
            let corpus_n = corpus.len();
            let mut res = campaign::run_campaign(&cfg, |_t| {
                Box::new(compsim::CompWorker::new(corpus.clone())) as Box<dyn Worker>
            });
            res.violations.extend(regress_v);
            let mut extra = Map::new();
            extra.insert("regression_replays".into(), json!(regress_n));
            extra.insert("corpus_programs".into(), json!(corpus_n));
            let ev = campaign::evidence_part(
                &cfg,
                &res,
                &args.tier,
                "exploration",
                "one run = one program text (every .koto file and every ```koto block of the repository, plain and wrapped into a function, in the first runs of every campaign; then generated nests of functions with free variables, defaults, generators, maps, matches, try blocks, imports and exports; SimLang programs; pairs of corpus programs) compiled with seeded compiler settings under 4-8 simulator-chosen hash seeds (hook H4: the RandomState of every hash set / map of parser and compiler); every compilation must give the same chunk (bytes, constant pool, source map) or the same error; evaluations = compilations; non-trivial = the program compiled and has a function with at least two non-local accesses (a set whose order can reach the output); distinct = distinct (source kind, functions, multi-capture functions, largest capture set) profiles",
                "compilations",
                json!({
                    "real": ["koto lexer", "koto parser", "koto bytecode compiler (Compiler::compile)"],
                    "stub": ["hash randomness: SimHashState with simulator-chosen keys instead of std RandomState (hook H4)"]
                }),
                vec![
                    "only the determinism clause of C05 is decided here; the structural well-formedness clauses are a pure function of the program and are not claimed (internal faults met while the other engines execute generated code under fault injection are reported there)".into(),
                ],
                extra,
            );
            finish(&cfg, &res, ev, &args.evidence);
        }
        "seqsim" => {
            let cfg = CampaignConfig {
                engine: "seqsim",
                property: "C19",
                base_seed: args.seed,
                runs: args.runs.unwrap_or(20_000),
                max_seconds: args.seconds.unwrap_or(0.0),
                threads: args.threads,
                keep_going: args.keep_going,
                strict: args.strict,
                digest_file: args.digests.clone(),
                replay_dir: args.replay_dir.clone(),
            };
            sched::install_global_hook();
            let (regress_n, regress_v) = run_regressions("seqsim", "C19", &args.regress_dir);
            report_known_findings("seqsim", "C19", &known, &args.known);
            let mut res = campaign::run_campaign(&cfg, |_t| {
                Box::new(locksim::SeqWorker { known: known.clone() }) as Box<dyn Worker>
            });
            res.violations.extend(regress_v);
            let _ = regress_n;
            let ev = campaign::evidence_part(
                &cfg,
                &res,
                &args.tier,
                "exploration",
                "container workloads of locksim executed sequentially in two fixed orders; compared with the sequential specification and (by the rc/arc differential) between the two builds",
                "container operations",
                components(),
                vec![],
                Map::new(),
            );
            finish(&cfg, &res, ev, &args.evidence);
        }
        "histsim-show" => {
            histsim::show(args.rest[0].parse().expect("run seed"));
        }
        "histsim" => {
            let cfg = CampaignConfig {
                engine: "histsim",
                property: "C07",
                base_seed: args.seed,
                runs: args.runs.unwrap_or(if quick { 40_000 } else { 4_000_000 }),
                max_seconds: args.seconds.unwrap_or(if quick { 60.0 } else { 900.0 }),
                threads: args.threads,
                keep_going: args.keep_going,
                strict: args.strict,
                digest_file: args.digests.clone(),
                replay_dir: args.replay_dir.clone(),
            };
            report_known_findings("histsim", "C07", &known, &args.known);
            let (regress_n, regress_v) = run_regressions("histsim", "C07", &args.regress_dir);
            let mut res = campaign::run_campaign(&cfg, |_t| {
                Box::new(histsim::HistWorker::new(known.clone())) as Box<dyn Worker>
            });
            res.violations.extend(regress_v);
            let mut extra = Map::new();
            extra.insert("regression_replays".into(), json!(regress_n));
            let ev = campaign::evidence_part(
                &cfg,
                &res,
                &args.tier,
                "exploration",
                "one run = one seeded history of 3-10 host operations (plus up to 110 consecutive failing calls in 4% of runs) on ONE runtime instance: compile_and_run of generated SimLang programs, call_exported_function with right/too few/too many arguments, on non-callables and missing names, value_to_string through @display, compile errors, failing imports (top level / @test / @main / cycle / syntax / missing), runaway scripts stopped by the execution limit; faults are injected at seeded dynamic fault points inside operations; evaluations = host operations executed; non-trivial = at least one operation failed; distinct = distinct sets of (failed operation kind, next operation kind, next outcome) per history",
                "VM instructions",
                components(),
                vec![
                    "oracle A: SimLang reference model (as C04); oracle B: 8 probe scripts vs a brand-new instance; oracle C: hook H3 (sizes of the VM's stacks)".into(),
                    "child VMs owned by iterators/generators are not inspected by H3".into(),
                ],
                extra,
            );
            finish(&cfg, &res, ev, &args.evidence);
        }
        "unwindsim-show" => {
            unwindsim::show(args.rest[0].parse().expect("run seed"), args.rest.get(1).map(|s| s.as_str()));
        }
        "clocksim-show" => {
            clocksim::show(args.rest[0].parse().expect("run seed"));
        }
        "clocksim" => {
            let cfg = CampaignConfig {
                engine: "clocksim",
                property: "C08",
                base_seed: args.seed,
                runs: args.runs.unwrap_or(if quick { 30_000 } else { 3_000_000 }),
                max_seconds: args.seconds.unwrap_or(if quick { 60.0 } else { 900.0 }),
                threads: args.threads,
                keep_going: args.keep_going,
                strict: args.strict,
                digest_file: args.digests.clone(),
                replay_dir: args.replay_dir.clone(),
            };
            report_known_findings("clocksim", "C08", &known, &args.known);
            let (regress_n, regress_v) = run_regressions("clocksim", "C08", &args.regress_dir);
            let mut res = campaign::run_campaign(&cfg, |_t| {
                Box::new(clocksim::ClockWorker::new(known.clone())) as Box<dyn Worker>
            });
            res.violations.extend(regress_v);
            let mut extra = Map::new();
            extra.insert("regression_replays".into(), json!(regress_n));
            extra.insert("simulated_time_virtual_seconds".into(), json!(res.sim_units as f64 / 1e9));
            let ev = campaign::evidence_part(
                &cfg,
                &res,
                &args.tier,
                "exploration",
                "one run = one seeded scenario (spin shape x placement x context stack x limit x cost profile x clock behaviour) executed on the real VM under the virtual clock; non-trivial = at least one deadline check was performed after the deadline was armed (or a terminating control was compared with its no-limit run); distinct = distinct (shape, placement, contexts, control?, max entry depth, first-interval regime, clock granularity class, phases/stalls/jumps present, depth of the firing entry)",
                "virtual nanoseconds",
                components(),
                vec![
                    "the per-instruction hook is the only place virtual time advances besides slow() natives".into(),
                    "release build: first check interval baseline is 10^8 instructions per second".into(),
                    "slack formula of DESIGN.md section 5 C08 is what the documented algorithm guarantees".into(),
                ],
                extra,
            );
            finish(&cfg, &res, ev, &args.evidence);
        }
        #[cfg(feature = "arc")]
        "locksim" => {
            let cfg = CampaignConfig {
                engine: "locksim",
                property: "C19",
                base_seed: args.seed,
                runs: args.runs.unwrap_or(if quick { 40_000 } else { 4_000_000 }),
                max_seconds: args.seconds.unwrap_or(if quick { 60.0 } else { 900.0 }),
                threads: args.threads,
                keep_going: args.keep_going,
                strict: args.strict,
                digest_file: args.digests.clone(),
                replay_dir: args.replay_dir.clone(),
            };
            let policy = match locksim::validate_policy() {
                Ok(log) => log,
                Err(e) => {
                    println!("HARNESS-ERROR engine=locksim lock waiting-policy stub disagrees with the real lock: {e}");
                    std::process::exit(2);
                }
            };
            report_known_findings("locksim", "C19", &known, &args.known);
            let (regress_n, regress_v) = run_regressions("locksim", "C19", &args.regress_dir);
            let mut res = campaign::run_campaign(&cfg, |_t| {
                Box::new(locksim::LockWorker::new(known.clone())) as Box<dyn Worker>
            });
            res.violations.extend(regress_v);
            let mut extra = Map::new();
            extra.insert("regression_replays".into(), json!(regress_n));
            extra.insert("distinct_interleavings".into(), json!(res.distinct));
            extra.insert("lock_policy_validation".into(), json!(policy));
            let ev = campaign::evidence_part(
                &cfg,
                &res,
                &args.tier,
                "exploration",
                "one run = one seeded workload (2-3 real threads, each with its own runtime, 1-5 one-line container operations on a shared list/map) under one seeded schedule (random walk or PCT-style) of the baton scheduler, preceded by a sequential model self-check; non-trivial = the baton changed hands more often than the thread count (some preemption happened); distinct = distinct sequences of (thread, shared address class, intent kind, granted/blocked) lock events",
                "scheduling points",
                components(),
                vec![
                    "between two lock acquisitions a thread touches only thread-private state (safe Rust, no unsafe shared mutation)".into(),
                    "the waiting policy of parking_lot::RwLock is modelled (writer claims a read-held lock; new readers then wait); try-variants on shared containers are counted and expected to be 0".into(),
                ],
                extra,
            );
            finish(&cfg, &res, ev, &args.evidence);
        }
        other => {
            eprintln!("unknown engine {other} (or not built into this binary)");
            std::process::exit(2);
        }
    }
}
