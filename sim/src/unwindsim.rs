//! `unwindsim` — decides C04 (errors unwind to the right handler; finally always runs) and the
//! runtime-trace clause of C12: generated SimLang programs are executed on the real VM with a
//! fault injected at every dynamic fault point, and compared with the reference model.

use crate::campaign::{RunReport, ViolationReport, Worker};
use crate::host::{self, Host, HostSettings};
use crate::known::KnownFindings;
use crate::rng::{Digest, Rng, mix};
use crate::simlang::{self, *};
use crate::simmodel::*;
use crate::vclock::{CostProfile, StepCapExceeded, VClock};
use koto::prelude::*;
use koto::runtime::ErrorKind;
use serde_json::{Value, json};
use std::collections::BTreeSet;
use std::panic::{AssertUnwindSafe, catch_unwind};
use std::rc::Rc;
use std::sync::{Arc, Mutex};

pub const STEP_CAP: u64 = 300_000;

// ---------------------------------------------------------------------------------------------
// The instrumented host: tick / caught / dump natives

#[derive(Default)]
pub struct TickState {
    pub ids: Vec<u32>,
    pub count: u32,
    pub plan: FaultPlan,
    pub fired: u32,
    pub caught: Vec<(u32, String)>,
    pub dumps: Vec<String>,
}

pub type SharedTick = Arc<Mutex<TickState>>;

fn render_plain(vm: &mut KotoVm, v: &KValue) -> String {
    match v {
        KValue::Str(s) => s.to_string(),
        other => vm
            .value_to_string(other)
            .unwrap_or_else(|e| format!("<display failed: {}>", host::first_line(&e.to_string()))),
    }
}

pub fn add_sim_natives(h: &Host, ts: &SharedTick) {
    let prelude = h.koto.prelude();

    let st = ts.clone();
    prelude.add_fn("tick", move |ctx| {
        let (id, shape) = match ctx.args() {
            [KValue::Number(id), KValue::Number(shape)] => (i64::from(id), i64::from(shape)),
            [KValue::Number(id)] => (i64::from(id), 0),
            _ => return koto::runtime::runtime_error!("tick: bad arguments"),
        };
        let fault = {
            let mut s = st.lock().unwrap();
            s.count += 1;
            s.ids.push(id as u32);
            let c = s.count;
            let f = s.plan.get(&c).copied();
            if f.is_some() {
                s.fired += 1;
            }
            f
        };
        let fault = match (fault, shape) {
            (Some(FaultKind::BadVal), 0) => Some(FaultKind::HostErr),
            (f, _) => f,
        };
        match fault {
            None => Ok(KValue::from(id)),
            Some(FaultKind::HostErr) => koto::runtime::runtime_error!("tickfail {id}"),
            Some(FaultKind::HostThrow(k)) => {
                let Some(mk) = ctx.vm.exports().get(format!("MKERR{k}").as_str()) else {
                    return koto::runtime::runtime_error!("tick: MKERR{k} is not exported");
                };
                let thrown_value = ctx.vm.call_function(mk, &[KValue::from(id)])?;
                Err(koto::runtime::Error::new(ErrorKind::KotoError {
                    thrown_value,
                    vm: None,
                }))
            }
            Some(FaultKind::BadVal) => match shape {
                1 => Ok(KValue::from("bad")),
                _ => Ok(KValue::from(id + 7)),
            },
        }
    });

    let st = ts.clone();
    prelude.add_fn("caught", move |ctx| {
        let args = ctx.args().to_vec();
        let (id, e) = match args.as_slice() {
            [KValue::Number(id), e] => (i64::from(id) as u32, e.clone()),
            _ => return koto::runtime::runtime_error!("caught: bad arguments"),
        };
        let text = render_plain(ctx.vm, &e);
        let first = host::first_line(&text);
        // a thrown value arrives at its handler as it was thrown; only runtime errors are
        // rendered (message, then possibly the trace gathered so far): flag other text
        let first = if text.trim_end().lines().count() > 1 { format!("{first} [+more lines]") } else { first };
        st.lock().unwrap().caught.push((id, first));
        Ok(KValue::Null)
    });

    let st = ts.clone();
    prelude.add_fn("dump", move |ctx| {
        let args = ctx.args().to_vec();
        let mut parts = vec![];
        for (i, a) in args.iter().enumerate() {
            let s = render_plain(ctx.vm, a);
            if i == 0 {
                parts.push(format!("{s}:"));
            } else {
                parts.push(s);
            }
        }
        let head = parts.remove(0);
        st.lock().unwrap().dumps.push(format!("{head}{}", parts.join("|")));
        Ok(KValue::Null)
    });
}

// ---------------------------------------------------------------------------------------------
// One execution on the real VM

#[derive(Clone, Debug, PartialEq)]
pub struct Observed {
    pub markers: Vec<u32>,
    pub caught: Vec<(u32, String)>,
    pub dumps: Vec<String>,
    pub stdout: String,
    pub result: Result<String, String>,
    pub full_error: Option<String>,
    pub ticks: u32,
    pub tick_ids: Vec<u32>,
    pub fired: u32,
    pub panic: Option<String>,
    pub step_cap: bool,
    pub instructions: u64,
}

impl Default for Observed {
    fn default() -> Self {
        Self {
            markers: vec![],
            caught: vec![],
            dumps: vec![],
            stdout: String::new(),
            result: Ok(String::new()),
            full_error: None,
            ticks: 0,
            tick_ids: vec![],
            fired: 0,
            panic: None,
            step_cap: false,
            instructions: 0,
        }
    }
}

/// The step cap of one execution: a fixed budget plus an allowance for the iterations of the
/// program's storm loops that the reference model counted
pub fn step_cap_for(pred: &Prediction) -> u64 {
    STEP_CAP + 200 * pred.storm_iterations + 400 * pred.model_steps
}

thread_local! {
    static SCRATCH: std::cell::RefCell<Option<crate::clocksim::Scratch>> = const { std::cell::RefCell::new(None) };
}

pub fn execute(source: &str, plan: &FaultPlan, clock: &Rc<VClock>, step_cap: u64) -> Observed {
    let mut host = Host::new(HostSettings {
        run_tests: false,
        ..Default::default()
    });
    let ts: SharedTick = Default::default();
    ts.lock().unwrap().plan = plan.clone();
    add_sim_natives(&host, &ts);
    // a planned stream fault: the n-th write to stdout fails
    if let Some(k) = plan.keys().find(|k| **k > IO_BASE) {
        host.stdout.state.lock().unwrap().fail_at = Some((*k - IO_BASE) as u64);
    }
    clock.record_entries.set(false);
    clock.reset(CostProfile::constant(1), 1, step_cap);
    let mut out = Observed {
        result: Ok(String::new()),
        ..Default::default()
    };
    let koto = &mut host.koto;
    // the script lives in a scratch directory of this thread, next to the module files
    let script_path = SCRATCH.with(|s| {
        let mut s = s.borrow_mut();
        let sc = s.get_or_insert_with(|| {
            let sc = crate::clocksim::Scratch::new("uw");
            for (name, text) in crate::simlang::MODULE_FILES {
                std::fs::write(sc.dir.join(name), text).expect("write module");
            }
            std::fs::write(sc.dir.join("main.koto"), "").expect("write main");
            sc
        });
        sc.dir.join("main.koto").to_string_lossy().to_string()
    });
    let r = catch_unwind(AssertUnwindSafe(|| {
        let args = koto::CompileArgs::new(source)
            .script_path(script_path.as_str())
            .enable_type_checks(!source.starts_with(crate::simlang::TYPE_CHECKS_OFF_HEADER));
        match koto.compile_and_run(args) {
            Ok(v) => (host::render_result(koto, Ok(v)), None),
            Err(e) => {
                let full = e.to_string();
                (Err(host::first_line(&full)), Some(full))
            }
        }
    }));
    out.instructions = clock.instructions();
    match r {
        Ok((r, full)) => {
            out.result = r;
            out.full_error = full;
        }
        Err(p) => {
            clock.abandon();
            if p.downcast_ref::<StepCapExceeded>().is_some() {
                out.step_cap = true;
            } else {
                out.panic = Some(host::take_last_panic().unwrap_or_else(|| "panic".into()));
            }
        }
    }
    let log = host.take_log();
    out.markers = log.markers.iter().map(|m| *m as u32).collect();
    let mut t = ts.lock().unwrap();
    out.caught = std::mem::take(&mut t.caught);
    out.dumps = std::mem::take(&mut t.dumps);
    out.ticks = t.count;
    out.tick_ids = std::mem::take(&mut t.ids);
    out.fired = t.fired;
    out.stdout = host.stdout.take_output();
    out
}

// ---------------------------------------------------------------------------------------------
// Comparison

#[derive(Clone, Debug, PartialEq)]
pub struct Violation {
    pub class: String,
    pub detail: String,
}

const INTERNAL_ERRORS: &[&str] = &[
    "missing string builder",
    "missing sequence builder",
    "empty call stack",
    "unexpected error",
    "Overflow of the current frame",
    "Unexpected opcode",
    "Unexpected meta id",
    "Instruction access out of bounds",
    "Out of bounds access",
];

fn first_diff<T: PartialEq + std::fmt::Debug>(a: &[T], b: &[T]) -> String {
    let n = a.len().min(b.len());
    for i in 0..n {
        if a[i] != b[i] {
            return format!("at #{i}: model {:?}, koto {:?}", a[i], b[i]);
        }
    }
    if a.len() > b.len() {
        format!("koto stops after {} entries, model continues with {:?}", b.len(), a[n])
    } else if b.len() > a.len() {
        format!("model stops after {} entries, koto continues with {:?}", a.len(), b[n])
    } else {
        "equal".into()
    }
}

pub fn compare(pred: &Prediction, obs: &Observed) -> Option<Violation> {
    let v = |class: &str, detail: String| {
        Some(Violation {
            class: class.into(),
            detail,
        })
    };
    if let Some(p) = &obs.panic {
        return v("panic", p.replace('\n', " "));
    }
    if obs.step_cap {
        return v("no-return", format!("step cap of {} instructions reached", step_cap_for(pred)));
    }
    if let Err(e) = &obs.result {
        let lower = e.to_lowercase();
        if let Some(x) = INTERNAL_ERRORS.iter().find(|x| lower.contains(&x.to_lowercase())) {
            return v("internal-error", format!("{x}: {e}"));
        }
    }
    for (_, c) in &obs.caught {
        let lower = c.to_lowercase();
        if let Some(x) = INTERNAL_ERRORS.iter().find(|x| lower.contains(&x.to_lowercase())) {
            return v("internal-error", format!("{x} (caught by the script): {c}"));
        }
    }
    if pred.tick_ids != obs.tick_ids && !pred.tick_ids.is_empty() {
        return v("fault-point-sequence", first_diff(&pred.tick_ids, &obs.tick_ids));
    }
    if pred.markers != obs.markers {
        return v("markers", first_diff(&pred.markers, &obs.markers));
    }
    {
        // runtime errors may or may not carry trace lines when they reach a handler; thrown
        // values (strings, numbers, objects) never do
        let norm = |c: &Vec<(u32, String)>| -> Vec<(u32, String)> {
            c.iter()
                .enumerate()
                .map(|(i, (id, text))| {
                    let runtime = pred.caught_runtime.get(i).copied().unwrap_or(true);
                    let t = if runtime { text.trim_end_matches(" [+more lines]").to_string() } else { text.clone() };
                    (*id, t)
                })
                .collect()
        };
        let (a, b) = (norm(&pred.caught), norm(&obs.caught));
        if a != b {
            return v("caught-values", first_diff(&a, &b));
        }
    }
    if pred.dumps != obs.dumps {
        return v("state-after-catch", first_diff(&pred.dumps, &obs.dumps));
    }
    if pred.stdout != obs.stdout {
        return v("stdout", format!("model {:?}, koto {:?}", pred.stdout, obs.stdout));
    }
    if pred.result != obs.result && !(pred.result_alt.is_some() && obs.result.as_ref().err() == pred.result_alt.as_ref()) {
        return v("result", format!("model {:?}, koto {:?}", pred.result, obs.result));
    }
    None
}

/// C12, runtime-trace clause: the rendered uncaught error must list the failing line first and
/// then each enclosing call site, innermost first, quoting exactly those source lines.
pub fn check_trace(pred: &Prediction, obs: &Observed, source: &str) -> Option<Violation> {
    let (Some(origin), Some(full)) = (pred.origin_line, &obs.full_error) else {
        return None;
    };
    if origin == 0 {
        return None;
    }
    let src_lines: Vec<&str> = source.lines().collect();
    // parse `--- <line>:<col>` headers and the quoted ` <line> | text` rows
    let mut reported: Vec<(u32, u32, String)> = vec![];
    let lines: Vec<&str> = full.lines().collect();
    let mut i = 0;
    while i < lines.len() {
        if let Some(rest) = lines[i].strip_prefix("--- ") {
            let pos = rest.rsplit(" - ").next().unwrap_or(rest);
            let mut it = pos.split(':');
            let l: u32 = it.next().and_then(|x| x.trim().parse().ok()).unwrap_or(0);
            let c: u32 = it.next().and_then(|x| x.trim().parse().ok()).unwrap_or(0);
            // the quoted line follows after a `    |` row
            let mut quoted = String::new();
            for row in lines.iter().skip(i + 1).take(3) {
                if let Some(ix) = row.find(" | ") {
                    let (num, text) = row.split_at(ix);
                    if num.trim().parse::<u32>().ok() == Some(l) {
                        quoted = text[3..].to_string();
                        break;
                    }
                }
            }
            reported.push((l, c, quoted));
        }
        i += 1;
    }
    let v = |class: &str, detail: String| {
        Some(Violation {
            class: class.into(),
            detail,
        })
    };
    if reported.is_empty() {
        return v("trace-missing", format!("no source position in: {}", full.replace('\n', " / ")));
    }
    // when the path crossed a conduit that contributes frames of its own (possibly from another
    // chunk, e.g. koto.run), only the first frame - the failing expression - is defined
    let checked = if pred.trace_lines.is_some() { reported.len() } else { 1 };
    for (i, (l, c, q)) in reported.iter().enumerate().take(checked) {
        // a frame the model places in another chunk (a `koto.run` snippet): line 1 of the
        // snippet, quoting the snippet's text
        if let Some(exp) = pred.trace_lines.as_ref().and_then(|t| t.get(i))
            && *exp >= crate::simmodel::FOREIGN_BASE
        {
            let text = pred
                .trace_foreign
                .get((*exp - crate::simmodel::FOREIGN_BASE) as usize)
                .map(|s| s.as_str())
                .unwrap_or("");
            if *l != 1 || q.trim_end() != text {
                return v(
                    "trace-call-sites",
                    format!("frame {i} is the call `{text}` on line 1 of a chunk run by koto.run, reported as line {l} quoting {q:?}"),
                );
            }
            continue;
        }
        if *l == 0 || *l as usize > src_lines.len() {
            return v("trace-position-outside-source", format!("line {l}"));
        }
        let text = src_lines[*l as usize - 1];
        if *c as usize > text.len() + 1 || *c == 0 {
            return v(
                "trace-position-outside-source",
                format!("column {c} on line {l} of length {}", text.len()),
            );
        }
        if !q.is_empty() && q.trim_end() != text.trim_end() {
            return v(
                "trace-quote-mismatch",
                format!("line {l} quoted as {q:?} but is {text:?}"),
            );
        }
    }
    if reported[0].0 != origin {
        return v(
            "trace-first-line",
            format!(
                "failing expression is on line {origin} but the error reports line {} first",
                reported[0].0
            ),
        );
    }
    if let Some(expected) = &pred.trace_lines {
        let got: Vec<u32> = reported.iter().map(|r| r.0).collect();
        let expected: Vec<u32> = expected
            .iter()
            .map(|l| if *l >= crate::simmodel::FOREIGN_BASE { 1 } else { *l })
            .collect();
        if got != expected {
            return v(
                "trace-call-sites",
                format!("expected lines {expected:?} (failing line, then call sites innermost first), reported {got:?}"),
            );
        }
    }
    None
}

// ---------------------------------------------------------------------------------------------
// One program: fault-free run, every single-fault position, seeded multi-fault plans

pub struct Finding {
    pub violation: Violation,
    pub plan: FaultPlan,
    pub property: &'static str,
    /// explained by the finally deviation (known finding KF-C04-1)?
    pub finally_deviation: bool,
    /// an internal fault or panic on an execution in which (according to the model) no error
    /// was in play: outside the domain of C04/C12, inside C05's internal-fault clause
    pub error_free: bool,
}

pub struct ProgramEval {
    pub executions: u64,
    pub instructions: u64,
    pub faults_fired: u64,
    pub findings: Vec<Finding>,
    pub harness_error: Option<String>,
    pub sigs: Vec<u64>,
    pub digest: u64,
    pub counters: Vec<(&'static str, u64)>,
    pub k: u32,
    pub trace_full: u64,
    pub trace_first_line: u64,
}

fn kinds_for(r: &mut Rng, all: bool) -> Vec<FaultKind> {
    let pool = [
        FaultKind::HostErr,
        FaultKind::HostThrow(1),
        FaultKind::HostThrow(2),
        FaultKind::BadVal,
    ];
    if all {
        pool.to_vec()
    } else {
        let mut v = vec![FaultKind::HostErr];
        v.push(*r.pick(&pool[1..]));
        v
    }
}

pub fn eval_one(
    p: &Program,
    printed: &Printed,
    plan: &FaultPlan,
    clock: &Rc<VClock>,
    check_c12: bool,
) -> (Prediction, Observed, Option<(Violation, &'static str, bool)>) {
    // every execution is a fresh runtime
    crate::simmodel::set_okmod_loaded(false);
    let pred = Model::run(
        p,
        printed,
        plan,
        ModelOpts {
            tick_start: 0,
            finally_on_abrupt_exit: true,
        },
    );
    let obs = execute(&printed.source, plan, clock, step_cap_for(&pred));
    let mut verdict = compare(&pred, &obs).map(|v| (v, "C04", false));
    if let Some((v, _, _)) = &verdict
        && pred.abrupt_exit_through_finally
        && !matches!(v.class.as_str(), "panic" | "no-return" | "internal-error")
    {
        // would the known deviation (finally skipped on abrupt exits) explain everything?
        crate::simmodel::set_okmod_loaded(false);
        let dev = Model::run(
            p,
            printed,
            plan,
            ModelOpts {
                tick_start: 0,
                finally_on_abrupt_exit: false,
            },
        );
        if compare(&dev, &obs).is_none() {
            verdict = verdict.map(|(v, p, _)| {
                (
                    Violation {
                        class: "finally-skipped-on-abrupt-exit".into(),
                        detail: v.detail,
                    },
                    p,
                    true,
                )
            });
        }
    }
    if verdict.is_none() && check_c12 {
        verdict = check_trace(&pred, &obs, &printed.source).map(|v| (v, "C12", false));
    }
    (pred, obs, verdict)
}

pub fn evaluate_program(
    p: &Program,
    printed: &Printed,
    seed: u64,
    clock: &Rc<VClock>,
    stop_at_first: bool,
) -> ProgramEval {
    let mut r = Rng::fork(seed, "faults");
    let mut ev = ProgramEval {
        executions: 0,
        instructions: 0,
        faults_fired: 0,
        findings: vec![],
        harness_error: None,
        sigs: vec![],
        digest: 0,
        counters: vec![],
        k: 0,
        trace_full: 0,
        trace_first_line: 0,
    };
    let mut dg = Digest::new();
    let mut n_caught = 0u64;
    let mut n_uncaught = 0u64;
    let mut n_finally_abrupt = 0u64;
    let mut n_multi = 0u64;
    let mut kind_counts = [0u64; 4];

    let mut run_plan = |plan: &FaultPlan, ev: &mut ProgramEval, dg: &mut Digest| -> Option<Prediction> {
        let (pred, obs, verdict) = eval_one(p, printed, plan, clock, true);
        ev.executions += 1;
        ev.instructions += obs.instructions;
        ev.faults_fired += obs.fired as u64;
        // behaviour-only digest
        for m in &obs.markers {
            dg.u64(*m as u64);
        }
        for (i, s) in &obs.caught {
            dg.u64(*i as u64);
            dg.str(s);
        }
        for d in &obs.dumps {
            dg.str(d);
        }
        dg.str(&obs.stdout);
        dg.str(&format!("{:?}", obs.result));
        dg.u64(obs.ticks as u64);
        if let Some(gap) = &pred.model_gap {
            ev.harness_error = Some(format!("model gap: {gap}"));
            return None;
        }
        if pred.result.is_err() && pred.origin_line.unwrap_or(0) > 0 && obs.full_error.is_some() {
            if pred.trace_lines.is_some() {
                ev.trace_full += 1;
            } else {
                ev.trace_first_line += 1;
            }
        }
        if let Some((v, prop, fin)) = verdict {
            let internal = matches!(v.class.as_str(), "internal-error" | "panic");
            if !pred.error_occurred && !fin && !internal {
                // outside the domain of C04/C12: a disagreement without any error in play is a
                // modelling problem (or a C01-C03 matter), never reported as a violation
                ev.harness_error = Some(format!(
                    "model/koto disagree on an error-free execution ({}: {})",
                    v.class, v.detail
                ));
                return None;
            }
            ev.findings.push(Finding {
                violation: v,
                plan: plan.clone(),
                property: prop,
                finally_deviation: fin,
                error_free: !pred.error_occurred && !fin,
            });
        }
        if pred.fired > 0 || pred.error_occurred {
            let mut d = Digest::new();
            for s in &pred.sig {
                d.str(s);
            }
            ev.sigs.push(d.0);
        }
        Some(pred)
    };

    // fault-free configuration first
    let empty = FaultPlan::new();
    let Some(base) = run_plan(&empty, &mut ev, &mut dg) else {
        ev.digest = dg.0;
        return ev;
    };
    ev.k = base.ticks;
    if stop_at_first && !ev.findings.is_empty() {
        ev.digest = dg.0;
        return ev;
    }
    // every single-fault position
    let k = base.ticks.min(80);
    for pos in 1..=k {
        for kind in kinds_for(&mut r, k <= 6) {
            let mut plan = FaultPlan::new();
            plan.insert(pos, kind);
            let Some(pred) = run_plan(&plan, &mut ev, &mut dg) else {
                ev.digest = dg.0;
                return ev;
            };
            kind_counts[match kind {
                FaultKind::HostErr => 0,
                FaultKind::HostThrow(_) => 1,
                FaultKind::BadVal => 2,
            }] += pred.fired as u64;
            if pred.result.is_err() {
                n_uncaught += 1;
            } else {
                n_caught += 1;
            }
            if pred.abrupt_exit_through_finally {
                n_finally_abrupt += 1;
            }
            if stop_at_first && !ev.findings.is_empty() {
                ev.digest = dg.0;
                return ev;
            }
            // a second fault shortly after the first one was handled: inside the catch block,
            // the finally block, the statement after the try, the next loop iteration
            if pred.result.is_ok() && pred.ticks > pos && r.chance(1, 2) {
                let span = (pred.ticks - pos).min(4);
                let pos2 = pos + 1 + r.below(span as u64) as u32;
                let mut plan2 = plan.clone();
                plan2.insert(pos2, *r.pick(&kinds_for(&mut r.clone(), true)));
                if r.chance(1, 4) && pred.ticks > pos2 {
                    plan2.insert(pos2 + 1 + r.below((pred.ticks - pos2).min(3) as u64) as u32, FaultKind::HostErr);
                }
                let Some(pred2) = run_plan(&plan2, &mut ev, &mut dg) else {
                    ev.digest = dg.0;
                    return ev;
                };
                if pred2.fired >= 2 {
                    n_multi += 1;
                }
                if stop_at_first && !ev.findings.is_empty() {
                    ev.digest = dg.0;
                    return ev;
                }
            }
        }
    }
    // every stream write of the fault-free run fails once (fault kind F-io)
    let mut n_io = 0u64;
    for pos in 1..=base.io_ops.min(12) {
        let mut plan = FaultPlan::new();
        plan.insert(IO_BASE + pos, FaultKind::HostErr);
        let Some(pred) = run_plan(&plan, &mut ev, &mut dg) else {
            ev.digest = dg.0;
            return ev;
        };
        n_io += pred.fired as u64;
        if stop_at_first && !ev.findings.is_empty() {
            ev.digest = dg.0;
            return ev;
        }
    }
    ev.digest = dg.0;
    ev.counters = vec![
        ("fault.stream_write_failure.fired", n_io),
        ("fault.host_error.fired", kind_counts[0]),
        ("fault.host_typed_throw.fired", kind_counts[1]),
        ("fault.bad_value.fired", kind_counts[2]),
        ("runs.single_fault_caught", n_caught),
        ("runs.single_fault_uncaught", n_uncaught),
        ("runs.multi_fault_two_or_more_fired", n_multi),
        ("probe.abrupt_exit_through_finally", n_finally_abrupt),
        ("c12.uncaught_traces_checked_full_call_chain", ev.trace_full),
        ("c12.uncaught_traces_checked_first_line_only", ev.trace_first_line),
    ];
    ev
}

// ---------------------------------------------------------------------------------------------
// Minimisation: one-step reductions of the program

fn expr_variants(e: &Expr) -> Vec<Expr> {
    match e {
        Expr::Call(c) => {
            let mut v = vec![c.arg.clone(), Expr::Int(1)];
            if c.conduit != Conduit::Plain || c.drop_arg {
                let mut c2 = (**c).clone();
                c2.conduit = Conduit::Plain;
                c2.drop_arg = false;
                v.push(Expr::Call(Box::new(c2)));
            }
            for a in expr_variants(&c.arg) {
                let mut c2 = (**c).clone();
                c2.arg = a;
                v.push(Expr::Call(Box::new(c2)));
            }
            v
        }
        Expr::Add(a, b) => {
            let mut v = vec![(**a).clone(), (**b).clone()];
            for x in expr_variants(a) {
                v.push(Expr::Add(Box::new(x), b.clone()));
            }
            for x in expr_variants(b) {
                v.push(Expr::Add(a.clone(), Box::new(x)));
            }
            v
        }
        Expr::Tick(id, shape) => {
            let mut v = vec![Expr::Int(*id as i64)];
            if *shape != TickShape::Plain {
                v.push(Expr::Tick(*id, TickShape::Plain));
            }
            v
        }
        Expr::Int(0) | Expr::Int(1) => vec![],
        Expr::Int(_) => vec![Expr::Int(1)],
        _ => vec![Expr::Int(1)],
    }
}

fn stmt_expr_variants(s: &Stmt) -> Vec<Stmt> {
    let mut out = vec![];
    match s {
        Stmt::Assign(v, e) => out.extend(expr_variants(e).into_iter().map(|x| Stmt::Assign(*v, x))),
        Stmt::Push(e) => out.extend(expr_variants(e).into_iter().map(Stmt::Push)),
        Stmt::GlobalPush(e) => out.extend(expr_variants(e).into_iter().map(Stmt::GlobalPush)),
        Stmt::MapSet(k, e) => out.extend(expr_variants(e).into_iter().map(|x| Stmt::MapSet(*k, x))),
        Stmt::Print(e) => out.extend(expr_variants(e).into_iter().map(Stmt::Print)),
        Stmt::Return(e) => out.extend(expr_variants(e).into_iter().map(Stmt::Return)),
        Stmt::Expr(e) => out.extend(expr_variants(e).into_iter().map(Stmt::Expr)),
        Stmt::AssignList(es) => {
            for i in 0..es.len() {
                if es.len() > 1 {
                    let mut v = es.clone();
                    v.remove(i);
                    out.push(Stmt::AssignList(v));
                }
                for x in expr_variants(&es[i]) {
                    let mut v = es.clone();
                    v[i] = x;
                    out.push(Stmt::AssignList(v));
                }
            }
        }
        Stmt::AssignStr(parts) => {
            for i in 0..parts.len() {
                if let StrPart::Int(e) = &parts[i] {
                    for x in expr_variants(e) {
                        let mut v = parts.clone();
                        v[i] = StrPart::Int(x);
                        out.push(Stmt::AssignStr(v));
                    }
                    let mut v = parts.clone();
                    v.remove(i);
                    out.push(Stmt::AssignStr(v));
                }
            }
        }
        Stmt::LoopTryBreak(v, id, pre, val, handler) => {
            out.push(Stmt::Assign(*v, val.clone()));
            for b2 in block_variants(pre) {
                out.push(Stmt::LoopTryBreak(*v, *id, b2, val.clone(), handler.clone()));
            }
            for b2 in block_variants(handler) {
                out.push(Stmt::LoopTryBreak(*v, *id, pre.clone(), val.clone(), b2));
            }
            out.extend(expr_variants(val).into_iter().map(|x| Stmt::LoopTryBreak(*v, *id, pre.clone(), x, handler.clone())));
        }
        Stmt::AddAssign(v, e) => {
            out.push(Stmt::Assign(*v, e.clone()));
            out.extend(expr_variants(e).into_iter().map(|x| Stmt::AddAssign(*v, x)));
        }
        Stmt::ChainAssign(v, e) => {
            out.push(Stmt::Assign(*v, e.clone()));
            out.extend(expr_variants(e).into_iter().map(|x| Stmt::ChainAssign(*v, x)));
        }
        Stmt::MatchAssign(v, e, e2) => {
            out.push(Stmt::Assign(*v, e.clone()));
            out.push(Stmt::Assign(*v, e2.clone()));
            out.extend(expr_variants(e).into_iter().map(|x| Stmt::MatchAssign(*v, x, e2.clone())));
            out.extend(expr_variants(e2).into_iter().map(|x| Stmt::MatchAssign(*v, e.clone(), x)));
        }
        Stmt::Storm(v, k, n) => {
            if *n > 1 {
                out.push(Stmt::Storm(*v, *k, n / 2));
                out.push(Stmt::Storm(*v, *k, n - n / 4 - 1));
            }
            if *k != 0 {
                out.push(Stmt::Storm(*v, 0, *n));
            }
        }
        Stmt::Calm(v, k, n) => {
            if *n > 1 {
                out.push(Stmt::Calm(*v, *k, n / 2));
                out.push(Stmt::Calm(*v, *k, n - n / 4 - 1));
            }
        }
        Stmt::KeyChainCall(v, func, arg, site, form) => {
            out.push(Stmt::Assign(
                *v,
                Expr::Call(Box::new(Call { conduit: Conduit::Plain, func: *func, arg: arg.clone(), drop_arg: false, site: *site })),
            ));
            if *form != 0 {
                out.push(Stmt::KeyChainCall(*v, *func, arg.clone(), *site, form & (form - 1)));
            }
            out.extend(expr_variants(arg).into_iter().map(|x| Stmt::KeyChainCall(*v, *func, x, *site, *form)));
        }
        Stmt::AssignLambdaCall(v, func, arg, site) => {
            out.push(Stmt::Assign(
                *v,
                Expr::Call(Box::new(Call { conduit: Conduit::Plain, func: *func, arg: arg.clone(), drop_arg: false, site: *site })),
            ));
            out.extend(expr_variants(arg).into_iter().map(|x| Stmt::AssignLambdaCall(*v, *func, x, *site)));
        }
        Stmt::Throw(ThrowKind::Plain(e)) => {
            out.push(Stmt::Throw(ThrowKind::Str(1)));
            out.extend(expr_variants(e).into_iter().map(|x| Stmt::Throw(ThrowKind::Plain(x))));
        }
        Stmt::Throw(ThrowKind::Num(e)) => {
            out.push(Stmt::Throw(ThrowKind::Str(1)));
            out.extend(expr_variants(e).into_iter().map(|x| Stmt::Throw(ThrowKind::Num(x))));
        }
        Stmt::Throw(ThrowKind::TypedLayout(k, e, layout)) => {
            out.push(Stmt::Throw(ThrowKind::Typed(*k, e.clone())));
            out.extend(
                expr_variants(e)
                    .into_iter()
                    .map(|x| Stmt::Throw(ThrowKind::TypedLayout(*k, x, *layout))),
            );
        }
        Stmt::Throw(ThrowKind::Typed(k, e)) => {
            out.push(Stmt::Throw(ThrowKind::Str(1)));
            out.extend(
                expr_variants(e)
                    .into_iter()
                    .map(|x| Stmt::Throw(ThrowKind::Typed(*k, x))),
            );
        }
        Stmt::If(c, t, e) => {
            let (ce, mk): (&Expr, Box<dyn Fn(Expr) -> Cond>) = match c {
                Cond::Eq(x, v) => {
                    let v = *v;
                    (x, Box::new(move |n| Cond::Eq(n, v)))
                }
                Cond::Gt(x, v) => {
                    let v = *v;
                    (x, Box::new(move |n| Cond::Gt(n, v)))
                }
            };
            for x in expr_variants(ce) {
                out.push(Stmt::If(mk(x), t.clone(), e.clone()));
            }
        }
        _ => {}
    }
    out
}

fn block_variants(b: &Block) -> Vec<Block> {
    let mut out = vec![];
    for i in 0..b.stmts.len() {
        // delete the statement
        let mut v = b.clone();
        v.stmts.remove(i);
        out.push(v);
        // replace a compound statement by (one of) its blocks
        let inline = |blk: &Block| {
            let mut v = b.clone();
            let mut inner = blk.stmts.clone();
            if let Some(t) = &blk.tail {
                inner.push(Stmt::Expr(t.clone()));
            }
            v.stmts.splice(i..=i, inner);
            v
        };
        match &b.stmts[i] {
            Stmt::If(c, t, e) => {
                out.push(inline(t));
                if !e.stmts.is_empty() {
                    out.push(inline(e));
                    let mut v = b.clone();
                    v.stmts[i] = Stmt::If(c.clone(), t.clone(), Block::default());
                    out.push(v);
                }
                for tv in block_variants(t) {
                    let mut v = b.clone();
                    v.stmts[i] = Stmt::If(c.clone(), tv, e.clone());
                    out.push(v);
                }
                for evv in block_variants(e) {
                    let mut v = b.clone();
                    v.stmts[i] = Stmt::If(c.clone(), t.clone(), evv);
                    out.push(v);
                }
            }
            Stmt::For(l, n, body) | Stmt::While(l, n, body) => {
                let is_for = matches!(&b.stmts[i], Stmt::For(..));
                let mk = |n: u8, body: Block| {
                    if is_for { Stmt::For(*l, n, body) } else { Stmt::While(*l, n, body) }
                };
                if *n > 1 {
                    let mut v = b.clone();
                    v.stmts[i] = mk(*n - 1, body.clone());
                    out.push(v);
                }
                if !is_for {
                    let mut v = b.clone();
                    v.stmts[i] = Stmt::For(*l, *n, body.clone());
                    out.push(v);
                }
                for bv in block_variants(body) {
                    let mut v = b.clone();
                    v.stmts[i] = mk(*n, bv);
                    out.push(v);
                }
            }
            Stmt::Try(t) => {
                out.push(inline(&t.body));
                if t.finally.is_some() {
                    let mut t2 = (**t).clone();
                    t2.finally = None;
                    let mut v = b.clone();
                    v.stmts[i] = Stmt::Try(Box::new(t2));
                    out.push(v);
                }
                if t.tuple_prefix.is_some() {
                    let mut t2 = (**t).clone();
                    t2.tuple_prefix = None;
                    let mut v = b.clone();
                    v.stmts[i] = Stmt::Try(Box::new(t2));
                    out.push(v);
                }
                if t.result.is_some() {
                    let mut t2 = (**t).clone();
                    t2.result = None;
                    t2.tuple_prefix = None;
                    let mut v = b.clone();
                    v.stmts[i] = Stmt::Try(Box::new(t2));
                    out.push(v);
                }
                for ci in 0..t.catches.len().saturating_sub(1) {
                    let mut t2 = (**t).clone();
                    t2.catches.remove(ci);
                    let mut v = b.clone();
                    v.stmts[i] = Stmt::Try(Box::new(t2));
                    out.push(v);
                }
                for bv in block_variants(&t.body) {
                    let mut t2 = (**t).clone();
                    t2.body = bv;
                    let mut v = b.clone();
                    v.stmts[i] = Stmt::Try(Box::new(t2));
                    out.push(v);
                }
                for ci in 0..t.catches.len() {
                    for bv in block_variants(&t.catches[ci].block) {
                        let mut t2 = (**t).clone();
                        t2.catches[ci].block = bv;
                        let mut v = b.clone();
                        v.stmts[i] = Stmt::Try(Box::new(t2));
                        out.push(v);
                    }
                }
                if let Some(fin) = &t.finally {
                    for bv in block_variants(fin) {
                        let mut t2 = (**t).clone();
                        t2.finally = Some(bv);
                        let mut v = b.clone();
                        v.stmts[i] = Stmt::Try(Box::new(t2));
                        out.push(v);
                    }
                }
            }
            other => {
                for sv in stmt_expr_variants(other) {
                    let mut v = b.clone();
                    v.stmts[i] = sv;
                    out.push(v);
                }
            }
        }
    }
    if let Some(t) = &b.tail {
        for x in expr_variants(t) {
            let mut v = b.clone();
            v.tail = Some(x);
            out.push(v);
        }
    }
    out
}

fn calls_func(b: &Block, func: usize) -> bool {
    fn in_expr(e: &Expr, func: usize) -> bool {
        match e {
            Expr::Call(c) => c.func == func || in_expr(&c.arg, func),
            Expr::Add(a, b) => in_expr(a, func) || in_expr(b, func),
            _ => false,
        }
    }
    let in_block = |b: &Block| calls_func(b, func);
    b.tail.as_ref().is_some_and(|t| in_expr(t, func))
        || b.stmts.iter().any(|s| match s {
            Stmt::Assign(_, e)
            | Stmt::Push(e)
            | Stmt::GlobalPush(e)
            | Stmt::MapSet(_, e)
            | Stmt::Print(e)
            | Stmt::Return(e)
            | Stmt::AddAssign(_, e)
            | Stmt::ChainAssign(_, e)
            | Stmt::Expr(e) => in_expr(e, func),
            Stmt::MatchAssign(_, e, e2) => in_expr(e, func) || in_expr(e2, func),
            Stmt::LoopTryBreak(_, _, pre, val, handler) => in_block(pre) || in_expr(val, func) || in_block(handler),
            Stmt::AssignLambdaCall(_, f2, e, _) | Stmt::KeyChainCall(_, f2, e, _, _) => *f2 == func || in_expr(e, func),
            Stmt::AssignList(es) => es.iter().any(|e| in_expr(e, func)),
            Stmt::AssignStr(ps) => ps.iter().any(|p| matches!(p, StrPart::Int(e) if in_expr(e, func))),
            Stmt::Throw(ThrowKind::Typed(_, e)) | Stmt::Throw(ThrowKind::Num(e)) | Stmt::Throw(ThrowKind::Plain(e)) | Stmt::Throw(ThrowKind::TypedLayout(_, e, _)) => in_expr(e, func),
            Stmt::If(c, t, e) => {
                (match c {
                    Cond::Eq(x, _) | Cond::Gt(x, _) => in_expr(x, func),
                }) || in_block(t)
                    || in_block(e)
            }
            Stmt::For(_, _, b) | Stmt::While(_, _, b) => in_block(b),
            Stmt::Try(t) => {
                in_block(&t.body)
                    || t.catches.iter().any(|c| in_block(&c.block))
                    || t.finally.as_ref().is_some_and(in_block)
            }
            _ => false,
        })
}

pub fn program_variants(p: &Program) -> Vec<Program> {
    let mut out = vec![];
    for bv in block_variants(&p.main.body) {
        let mut v = p.clone();
        v.main.body = bv;
        out.push(v);
    }
    if let Some(r) = &p.main.ret {
        for x in expr_variants(r) {
            let mut v = p.clone();
            v.main.ret = Some(x);
            out.push(v);
        }
    }
    for i in 0..p.funcs.len() {
        for bv in block_variants(&p.funcs[i].body) {
            let mut v = p.clone();
            v.funcs[i].body = bv;
            out.push(v);
        }
        if let Some(r) = &p.funcs[i].ret {
            for x in expr_variants(r) {
                let mut v = p.clone();
                v.funcs[i].ret = Some(x);
                out.push(v);
            }
        }
    }
    // drop the last function if nothing calls it
    if let Some(last) = p.funcs.len().checked_sub(1) {
        let used = calls_func(&p.main.body, last)
            || p.main.ret.iter().any(|r| calls_func(&Block { stmts: vec![Stmt::Expr(r.clone())], tail: None }, last))
            || p.funcs.iter().any(|f| {
                calls_func(&f.body, last)
                    || f.ret.iter().any(|r| calls_func(&Block { stmts: vec![Stmt::Expr(r.clone())], tail: None }, last))
            });
        if !used {
            let mut v = p.clone();
            v.funcs.pop();
            out.push(v);
        }
    }
    out
}

fn program_size(p: &Program) -> usize {
    fn bs(b: &Block) -> usize {
        b.stmts
            .iter()
            .map(|s| {
                1 + match s {
                    Stmt::If(_, t, e) => bs(t) + bs(e),
                    Stmt::For(_, _, b) | Stmt::While(_, _, b) => bs(b),
                    Stmt::Try(t) => {
                        bs(&t.body)
                            + t.catches.iter().map(|c| 1 + bs(&c.block)).sum::<usize>()
                            + t.finally.as_ref().map(|f| 1 + bs(f)).unwrap_or(0)
                    }
                    _ => 0,
                }
            })
            .sum::<usize>()
            + b.tail.is_some() as usize
    }
    bs(&p.main.body) + p.funcs.iter().map(|f| 2 + bs(&f.body)).sum::<usize>()
}

/// Renumbers nothing, re-prints, and searches every single-fault position (plus the fault-free
/// run) for a finding of the wanted class
fn find_again(
    p: &Program,
    class: &str,
    seed: u64,
    clock: &Rc<VClock>,
    hint: &FaultPlan,
    noise: Option<u64>,
) -> Option<(Printed, Finding)> {
    let printed = simlang::print(
        p,
        &PrintOpts {
            noise_seed: noise,
            main_is_module_body: false,
                define_globals: true,
                tests: vec![],
                main_call: None,
        },
    );
    // try the hinted plan first (cheap), then the full enumeration
    let (pred, _obs, verdict) = eval_one(p, &printed, hint, clock, true);
    if pred.model_gap.is_none()
        && let Some((v, prop, fin)) = verdict
        && v.class == class
        && (pred.error_occurred || fin || matches!(v.class.as_str(), "internal-error" | "panic"))
    {
        return Some((
            printed,
            Finding {
                violation: v,
                plan: hint.clone(),
                property: prop,
                finally_deviation: fin,
                error_free: !pred.error_occurred && !fin,
            },
        ));
    }
    let ev = evaluate_program(p, &printed, seed, clock, false);
    if ev.harness_error.is_some() {
        return None;
    }
    let f = ev
        .findings
        .into_iter()
        .filter(|f| f.violation.class == class)
        .min_by_key(|f| f.plan.len())?;
    Some((printed, f))
}

pub fn shrink(
    p: &Program,
    finding: &Finding,
    seed: u64,
    clock: &Rc<VClock>,
    original_noise: Option<u64>,
) -> (Program, Printed, Finding, usize) {
    let class = finding.violation.class.clone();
    let mut best = p.clone();
    // without layout noise first (simpler replay files); a violation that depends on the
    // layout (comments, line ends) is minimised under the layout it was found with
    let mut noise = None;
    let mut first = find_again(&best, &class, seed, clock, &finding.plan, None);
    if first.is_none() && original_noise.is_some() {
        noise = original_noise;
        first = find_again(&best, &class, seed, clock, &finding.plan, noise);
    }
    let Some((mut best_printed, mut best_finding)) = first else {
        // cannot reproduce after re-printing: keep the original as it was printed
        let printed = simlang::print(p, &PrintOpts { noise_seed: original_noise, main_is_module_body: false, define_globals: true, tests: vec![], main_call: None });
        return (
            p.clone(),
            printed,
            Finding {
                violation: finding.violation.clone(),
                plan: finding.plan.clone(),
                property: finding.property,
                finally_deviation: finding.finally_deviation,
                error_free: finding.error_free,
            },
            0,
        );
    };
    let mut steps = 0;
    loop {
        let mut progressed = false;
        let mut cands = program_variants(&best);
        cands.sort_by_key(program_size);
        for c in cands {
            steps += 1;
            if steps > 1500 {
                break;
            }
            if let Some((pr, f)) = find_again(&c, &class, seed, clock, &best_finding.plan, noise) {
                best = c;
                best_printed = pr;
                best_finding = f;
                progressed = true;
                break;
            }
        }
        if !progressed || steps > 1500 {
            break;
        }
    }
    (best, best_printed, best_finding, steps)
}

// ---------------------------------------------------------------------------------------------
// Worker

pub struct UnwindWorker {
    clock: Rc<VClock>,
    known: KnownFindings,
    /// the property this campaign decides: findings of the other property are left to its check
    property: &'static str,
}

impl UnwindWorker {
    pub fn new(known: KnownFindings, property: &'static str) -> Self {
        Self {
            clock: host::install_clock(),
            known,
            property,
        }
    }
}

pub fn plan_to_json(plan: &FaultPlan) -> Value {
    json!(
        plan.iter()
            .map(|(k, v)| json!([k, format!("{v:?}")]))
            .collect::<Vec<_>>()
    )
}

pub fn plan_from_json(v: &Value) -> FaultPlan {
    let mut plan = FaultPlan::new();
    for e in v.as_array().cloned().unwrap_or_default() {
        let k = e[0].as_u64().unwrap_or(0) as u32;
        let kind = match e[1].as_str().unwrap_or("") {
            "HostErr" => FaultKind::HostErr,
            "HostThrow(1)" => FaultKind::HostThrow(1),
            "HostThrow(2)" => FaultKind::HostThrow(2),
            _ => FaultKind::BadVal,
        };
        plan.insert(k, kind);
    }
    plan
}

/// Structural features of a (minimised) program + finding, for known-finding matching
pub fn features(p: &Program, f: &Finding) -> BTreeSet<String> {
    let mut out = BTreeSet::new();
    fn walk(b: &Block, out: &mut BTreeSet<String>, in_try: bool, in_loop_try: bool) {
        for s in &b.stmts {
            match s {
                Stmt::If(_, t, e) => {
                    walk(t, out, in_try, in_loop_try);
                    walk(e, out, in_try, in_loop_try);
                }
                Stmt::For(_, _, body) | Stmt::While(_, _, body) => {
                    out.insert("loop".into());
                    walk(body, out, in_try, false);
                }
                Stmt::Try(t) => {
                    out.insert("try".into());
                    if t.finally.is_some() {
                        out.insert("finally".into());
                    }
                    if t.result.is_some() {
                        out.insert("try-result".into());
                    }
                    walk(&t.body, out, true, true);
                    for c in &t.catches {
                        walk(&c.block, out, true, true);
                    }
                    if let Some(fin) = &t.finally {
                        walk(fin, out, in_try, in_loop_try);
                    }
                }
                Stmt::Break | Stmt::Continue => {
                    if in_loop_try {
                        out.insert("break-or-continue-inside-try".into());
                    }
                }
                Stmt::Return(_) => {
                    if in_try {
                        out.insert("return-inside-try".into());
                    }
                }
                Stmt::Throw(_) => {
                    out.insert("throw".into());
                }
                _ => {}
            }
        }
    }
    walk(&p.main.body, &mut out, false, false);
    for func in &p.funcs {
        walk(&func.body, &mut out, false, false);
    }
    out.insert(format!("faults:{}", f.plan.len()));
    out.insert(format!("property:{}", f.property));
    out
}

impl Worker for UnwindWorker {
    fn run(&mut self, run_seed: u64, index: u64) -> RunReport {
        let mut kr = Rng::fork(run_seed, "knobs");
        let mut sr = Rng::fork(run_seed, "scenario");
        let knobs = GenKnobs::swarm(&mut kr);
        let p = simlang::generate(&mut sr, &knobs);
        let noise = if kr.chance(1, 2) { Some(mix(run_seed, 77)) } else { None };
        let printed = simlang::print(
            &p,
            &PrintOpts {
                noise_seed: noise,
                main_is_module_body: false,
                define_globals: true,
                tests: vec![],
                main_call: None,
            },
        );
        let ev = evaluate_program(&p, &printed, run_seed, &self.clock, false);
        let mut rep = RunReport {
            digest: ev.digest,
            executions: ev.executions,
            sim_units: ev.instructions,
            counters: ev.counters.clone(),
            ..Default::default()
        };
        rep.counters.push(("programs", 1));
        rep.counters.push(("dynamic_fault_points", ev.k as u64));
        rep.counters.retain(|(_, v)| *v > 0);
        if let Some(e) = ev.harness_error {
            rep.harness_error = Some(format!("{e}\n--- program\n{}", printed.source));
            return rep;
        }
        // distinct signatures reached by this program (the campaign de-duplicates globally):
        // fold them into one value per run and count the rest through a counter
        if !ev.sigs.is_empty() {
            let mut d = Digest::new();
            let set: BTreeSet<u64> = ev.sigs.iter().copied().collect();
            for s in &set {
                d.u64(*s);
            }
            rep.signature = Some(d.0);
        }
        if index < 2 {
            rep.sample = Some(json!({
                "run_seed": run_seed,
                "source": printed.source,
                "dynamic_fault_points": ev.k,
                "executions": ev.executions,
            }));
        }
        // report at most one finding per distinct class for this program
        let mut seen = BTreeSet::new();
        for f in ev.findings {
            let mine = if self.property == "C05" {
                // C05, internal-fault clause: generated code executed under fault injection never
                // raises an internal fault; everything else these runs show is C04's business
                f.property == "C04" && matches!(f.violation.class.as_str(), "internal-error" | "panic")
            } else {
                f.property == self.property
            };
            if !mine {
                continue;
            }
            if f.error_free && self.property != "C05" {
                // no error in play: not this property's business (undecided, never a violation)
                rep.harness_error = Some(format!(
                    "model/koto disagree on an error-free execution ({}: {})",
                    f.violation.class, f.violation.detail
                ));
                return rep;
            }
            if !seen.insert(f.violation.class.clone()) {
                continue;
            }
            if f.finally_deviation {
                // fully explained by the model switch for the known deviation: when that
                // finding is open there is nothing to minimise (the class is the shape)
                let feats = features(&p, &f);
                if let Some(id) = self.known.matches("unwindsim", &f.violation.class, &feats) {
                    rep.violations.push(ViolationReport {
                        class: f.violation.class.clone(),
                        detail: f.violation.detail.clone(),
                        scenario: Value::Null,
                        extra: Value::Null,
                        known: Some(id),
                    });
                    continue;
                }
            }
            let (mp, mprinted, mf, steps) = shrink(&p, &f, run_seed, &self.clock, noise);
            // exact replay, twice
            let (_, o1, v1) = eval_one(&mp, &mprinted, &mf.plan, &self.clock, true);
            let (_, o2, _) = eval_one(&mp, &mprinted, &mf.plan, &self.clock, true);
            if v1.as_ref().map(|v| &v.0.class) != Some(&mf.violation.class) || o1 != o2 {
                rep.harness_error = Some(format!(
                    "violation {} does not replay deterministically",
                    mf.violation.class
                ));
                return rep;
            }
            let feats = features(&mp, &mf);
            let known = self.known.matches("unwindsim", &mf.violation.class, &feats);
            rep.violations.push(ViolationReport {
                class: mf.violation.class.clone(),
                detail: mf.violation.detail.clone(),
                scenario: json!({
                    "source": mprinted.source,
                    "fault_plan": plan_to_json(&mf.plan),
                    "expected": prediction_to_json(&{
                        crate::simmodel::set_okmod_loaded(false);
                        Model::run(&mp, &mprinted, &mf.plan, ModelOpts { tick_start: 0, finally_on_abrupt_exit: true })
                    }),
                    "expected_deviation": if mf.finally_deviation {
                        prediction_to_json(&{
                            crate::simmodel::set_okmod_loaded(false);
                            Model::run(&mp, &mprinted, &mf.plan, ModelOpts { tick_start: 0, finally_on_abrupt_exit: false })
                        })
                    } else { Value::Null },
                }),
                extra: json!({
                    "property": mf.property,
                    "features": feats,
                    "shrink_steps": steps,
                    "original_source": printed.source,
                    "original_plan": plan_to_json(&f.plan),
                    "original_violation": {"class": f.violation.class, "detail": f.violation.detail},
                    "observed": {
                        "markers": o1.markers, "caught": o1.caught.iter().map(|(a, b)| json!([a, b])).collect::<Vec<_>>(),
                        "dumps": o1.dumps, "stdout": o1.stdout, "result": format!("{:?}", o1.result),
                        "full_error": o1.full_error,
                    },
                }),
                known,
            });
        }
        rep
    }
}

pub fn prediction_to_json(p: &Prediction) -> Value {
    json!({
        "markers": p.markers,
        "caught": p.caught.iter().map(|(a, b)| json!([a, b])).collect::<Vec<_>>(),
        "dumps": p.dumps,
        "stdout": p.stdout,
        "result": match &p.result { Ok(v) => json!({"ok": v}), Err(e) => json!({"err": e}) },
        "error_occurred": p.error_occurred,
        "storm_iterations": p.storm_iterations,
        "model_steps": p.model_steps,
        "result_alt": p.result_alt,
        "trace_foreign": p.trace_foreign,
        "caught_runtime": p.caught_runtime,
        "origin_line": p.origin_line,
        "trace_lines": p.trace_lines,
    })
}

pub fn prediction_from_json(v: &Value) -> Prediction {
    let strs = |x: &Value| -> Vec<String> {
        x.as_array()
            .map(|a| a.iter().filter_map(|s| s.as_str().map(String::from)).collect())
            .unwrap_or_default()
    };
    Prediction {
        markers: v["markers"]
            .as_array()
            .map(|a| a.iter().filter_map(|x| x.as_u64().map(|x| x as u32)).collect())
            .unwrap_or_default(),
        caught: v["caught"]
            .as_array()
            .map(|a| {
                a.iter()
                    .map(|e| (e[0].as_u64().unwrap_or(0) as u32, e[1].as_str().unwrap_or("").to_string()))
                    .collect()
            })
            .unwrap_or_default(),
        dumps: strs(&v["dumps"]),
        stdout: v["stdout"].as_str().unwrap_or("").to_string(),
        result: match (v["result"]["ok"].as_str(), v["result"]["err"].as_str()) {
            (Some(ok), _) => Ok(ok.to_string()),
            (_, Some(e)) => Err(e.to_string()),
            _ => Ok(String::new()),
        },
        error_occurred: v["error_occurred"].as_bool().unwrap_or(true),
        storm_iterations: v["storm_iterations"].as_u64().unwrap_or(0),
        model_steps: v["model_steps"].as_u64().unwrap_or(0),
        result_alt: v["result_alt"].as_str().map(String::from),
        trace_foreign: strs(&v["trace_foreign"]),
        caught_runtime: v["caught_runtime"]
            .as_array()
            .map(|a| a.iter().map(|x| x.as_bool().unwrap_or(true)).collect())
            .unwrap_or_default(),
        origin_line: v["origin_line"].as_u64().map(|x| x as u32),
        trace_lines: v["trace_lines"]
            .as_array()
            .map(|a| a.iter().filter_map(|x| x.as_u64().map(|x| x as u32)).collect()),
        ..Default::default()
    }
}

/// Replays a stored scenario: the source and fault plan are executed on the real VM and
/// compared with the stored prediction of the reference model
pub fn replay(doc: &Value) -> (Option<Violation>, u64) {
    let sc = &doc["scenario"];
    let source = sc["source"].as_str().unwrap_or("");
    let plan = plan_from_json(&sc["fault_plan"]);
    let expected = prediction_from_json(&sc["expected"]);
    let clock = host::install_clock();
    let obs = execute(source, &plan, &clock, step_cap_for(&expected));
    let mut d = Digest::new();
    for m in &obs.markers {
        d.u64(*m as u64);
    }
    for x in &obs.dumps {
        d.str(x);
    }
    d.str(&format!("{:?}", obs.result));
    let mut v = compare(&expected, &obs);
    if v.is_some() && !sc["expected_deviation"].is_null() {
        let dev = prediction_from_json(&sc["expected_deviation"]);
        if compare(&dev, &obs).is_none() {
            v = v.map(|x| Violation {
                class: "finally-skipped-on-abrupt-exit".into(),
                detail: x.detail,
            });
        }
    }
    if v.is_none() {
        v = check_trace(&expected, &obs, source);
    }
    (v, d.0)
}

/// Debug helper: one seed, optional single fault "pos:kind"
pub fn show(run_seed: u64, fault: Option<&str>) {
    let mut kr = Rng::fork(run_seed, "knobs");
    let mut sr = Rng::fork(run_seed, "scenario");
    let knobs = GenKnobs::swarm(&mut kr);
    let p = simlang::generate(&mut sr, &knobs);
    let noise = if kr.chance(1, 2) { Some(mix(run_seed, 77)) } else { None };
    let printed = simlang::print(&p, &PrintOpts { noise_seed: noise, main_is_module_body: false, define_globals: true, tests: vec![], main_call: None });
    let mut plan = FaultPlan::new();
    if let Some(f) = fault {
        for part in f.split(',') {
            let mut it = part.split(':');
            let pos: u32 = it.next().unwrap().parse().unwrap();
            let kind = match it.next().unwrap_or("e") {
                "e" => FaultKind::HostErr,
                "t1" => FaultKind::HostThrow(1),
                "t2" => FaultKind::HostThrow(2),
                _ => FaultKind::BadVal,
            };
            plan.insert(pos, kind);
        }
    }
    for (i, l) in printed.source.lines().enumerate() {
        println!("{:4} {}", i + 1, l);
    }
    println!("line ends: {}", if printed.source.contains('\r') { "CR LF" } else { "LF" });
    let clock = host::install_clock();
    let (pred, obs, verdict) = eval_one(&p, &printed, &plan, &clock, true);
    if std::env::var("SHOW_AST").is_ok() {
        println!("{:#?}", p.main);
    }
    println!("plan: {plan:?}");
    println!("model markers {:?}", pred.markers);
    println!("koto  markers {:?}", obs.markers);
    println!("model caught {:?}", pred.caught);
    println!("koto  caught {:?}", obs.caught);
    println!("model dumps {:#?}", pred.dumps);
    println!("koto  dumps {:#?}", obs.dumps);
    println!("model stdout {:?}\nkoto  stdout {:?}", pred.stdout, obs.stdout);
    println!("model result {:?}\nkoto  result {:?}", pred.result, obs.result);
    println!("model ticks {} fired {}; koto ticks {} fired {}", pred.ticks, pred.fired, obs.ticks, obs.fired);
    println!("model tick ids {:?}\nkoto  tick ids {:?}", pred.tick_ids, obs.tick_ids);
    println!("model trace {:?} origin {:?}", pred.trace_lines, pred.origin_line);
    println!("full error: {:?}", obs.full_error);
    println!("panic: {:?} cap {}", obs.panic, obs.step_cap);
    println!("verdict: {verdict:?}");
}
