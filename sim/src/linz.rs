//! A small Wing–Gong style linearizability checker for short histories.

use std::collections::HashSet;
use std::hash::Hash;

#[derive(Clone, Debug)]
pub struct HistOp<O> {
    pub thread: usize,
    pub invoke: u64,
    pub ret: u64,
    pub op: O,
    /// the observation the implementation returned
    pub obs: String,
}

/// Searches for a total order consistent with real-time precedence (a.ret < b.invoke) and with
/// per-thread order, under which every observation matches `apply`.
/// Returns the witnessing order (indices into `ops`) or None.
pub fn linearize<S, O>(
    init: &S,
    ops: &[HistOp<O>],
    apply: &dyn Fn(&mut S, &O) -> String,
    final_check: &dyn Fn(&S) -> bool,
) -> Option<Vec<usize>>
where
    S: Clone + Hash + Eq,
{
    let n = ops.len();
    assert!(n <= 63);
    // pred[i] = bitmask of ops that must come before i
    let mut pred = vec![0u64; n];
    for i in 0..n {
        for j in 0..n {
            if i != j && ops[j].ret < ops[i].invoke {
                pred[i] |= 1 << j;
            }
        }
    }
    let mut seen: HashSet<(u64, S)> = HashSet::new();
    let mut order = Vec::with_capacity(n);
    fn dfs<S: Clone + Hash + Eq, O>(
        done: u64,
        state: &S,
        ops: &[HistOp<O>],
        pred: &[u64],
        apply: &dyn Fn(&mut S, &O) -> String,
        final_check: &dyn Fn(&S) -> bool,
        seen: &mut HashSet<(u64, S)>,
        order: &mut Vec<usize>,
    ) -> bool {
        let n = ops.len();
        if done.count_ones() as usize == n {
            return final_check(state);
        }
        if !seen.insert((done, state.clone())) {
            return false;
        }
        for i in 0..n {
            if done & (1 << i) != 0 || pred[i] & !done != 0 {
                continue;
            }
            let mut s = state.clone();
            let obs = apply(&mut s, &ops[i].op);
            if obs == ops[i].obs {
                order.push(i);
                if dfs(done | (1 << i), &s, ops, pred, apply, final_check, seen, order) {
                    return true;
                }
                order.pop();
            }
        }
        false
    }
    if dfs(0, init, ops, &pred, apply, final_check, &mut seen, &mut order) {
        Some(order)
    } else {
        None
    }
}
