//! `histsim` — decides C07 (a failed run leaves the runtime reusable and clean): seeded
//! operation histories on ONE long-lived runtime instance, with failures injected at
//! arbitrary depth. Oracles: (A) the reference model executes the same history; (B) after
//! every failed operation a battery of probe scripts must behave exactly as on a brand-new
//! instance; (C) the VM's internal stacks are empty whenever control is back in the host.

use crate::campaign::{RunReport, ViolationReport, Worker};
use crate::clocksim::Scratch;
use crate::host::{self, Host, HostSettings};
use crate::known::KnownFindings;
use crate::rng::{Digest, Rng, mix};
use crate::simlang::{self, *};
use crate::simmodel::*;
use crate::unwindsim::{self, SharedTick, add_sim_natives, plan_to_json, program_variants};
use crate::vclock::{CostProfile, StepCapExceeded, VClock};
use koto::prelude::*;
use serde_json::{Value, json};
use std::collections::BTreeSet;
use std::panic::{AssertUnwindSafe, catch_unwind};
use std::rc::Rc;

pub const LIMIT_NS: u64 = 150_000;
pub const STEP_CAP: u64 = 600_000;

#[derive(Clone, Debug, PartialEq)]
pub enum Args {
    One(i64),
    None,
    Two,
}

#[derive(Clone, Copy, Debug, PartialEq, Eq, Hash)]
pub enum ImportKind {
    Ok,
    FailTop,
    FailTest,
    FailMain,
    Cycle,
    BadSyntax,
    Missing,
    CaughtFailTop,
    /// a module that runs fine but exports a non-callable `@main`
    BadMain,
    /// a module whose top level fails or not, depending on a switch of the host
    /// (`FLAKY_FAILS()`): a module that changed between two imports
    Flaky,
    /// the failing module reached through a second spelling of its path
    FailTopDotted,
}

#[derive(Clone, Copy, Debug, PartialEq, Eq, Hash)]
pub enum SpinKind {
    Top,
    InNativeCallback,
    InGenerator,
    InsideInterpolation,
}

#[derive(Clone, Debug)]
pub enum Op {
    Run {
        prog: Program,
        plan: FaultPlan,
        /// exported @test functions (function, argument) and @main call; only in histories
        /// whose instance runs tests (there the host clears the exports before every Run)
        tests: Vec<(usize, i64)>,
        main_call: Option<(usize, i64)>,
    },
    /// export an iterator made from generator GEN<func>(0) and a function that pulls from it
    MakeGen { func: usize },
    /// the host pulls one element from the exported generator (through the exported function)
    Pull { plan: FaultPlan },
    /// call_instance_function(OBJ, OBJ.m<k>, [arg])
    CallInstance { func: usize, arg: i64, plan: FaultPlan },
    Call { func: usize, args: Args, plan: FaultPlan },
    CallNonCallable,
    CallMissing,
    Show { func: usize, plan: FaultPlan },
    ShowGlobals,
    RunBad,
    Import(ImportKind),
    Spin(SpinKind),
    /// the host flips the switch the `flaky` module reads
    SetFlaky(bool),
    /// Koto::clear_module_cache(): every module is compiled and run again at its next import
    ClearCache,
    /// export an iterator over a value whose `@next` always throws, and a function pulling from it
    MakeNext,
    /// the host pulls from that iterator (through the exported function): fails every time
    PullNext,
}

impl Op {
    pub fn kind(&self) -> &'static str {
        match self {
            Op::Run { .. } => "Run",
            Op::Call { args: Args::One(_), .. } => "Call",
            Op::Call { args: Args::None, .. } => "CallTooFewArgs",
            Op::Call { args: Args::Two, .. } => "CallTooManyArgs",
            Op::CallInstance { .. } => "CallInstance",
            Op::MakeGen { .. } => "MakeGen",
            Op::Pull { .. } => "Pull",
            Op::CallNonCallable => "CallNonCallable",
            Op::CallMissing => "CallMissing",
            Op::Show { .. } => "Show",
            Op::ShowGlobals => "ShowGlobals",
            Op::RunBad => "RunBad",
            Op::Import(_) => "Import",
            Op::Spin(_) => "Spin",
            Op::SetFlaky(_) => "SetFlaky",
            Op::ClearCache => "ClearCache",
            Op::MakeNext => "MakeNext",
            Op::PullNext => "PullNext",
        }
    }
}

#[derive(Clone, Debug)]
pub struct History {
    pub ops: Vec<Op>,
    pub with_limit: bool,
    pub run_tests: bool,
}

// ---------------------------------------------------------------------------------------------
// Fixed material: modules on the simulated disk, probe scripts

pub const MODULES: &[(&str, &str)] = &[
    ("okmod.koto", "mark(4242)\nexport x = 1\n"),
    ("failtop.koto", "export y = 2\nthrow 'FT'\n"),
    ("failtest.koto", "export z = 3\n@test boom = ||\n  throw 'FTEST'\n"),
    ("failmain.koto", "export w = 4\n@main = ||\n  throw 'FMAIN'\n"),
    ("cyc_a.koto", "import cyc_b\nexport a = 1\n"),
    ("cyc_b.koto", "import cyc_a\nexport b = 1\n"),
    ("badsyntax.koto", "export q = (1 +\n"),
    ("badmain.koto", "export v = 5\n@main = 42\n"),
    ("flaky.koto", "export fv = 7\nmark(4343)\nif FLAKY_FAILS()\n  throw 'FLAKY'\n"),
    ("main.koto", "# placeholder for the importing script\n"),
];

pub const MAKE_NEXT_SCRIPT: &str = "export NIT = iterator.iter\n  @next: || throw 'NX'\nexport NPULL = || NIT.next()\n'made'\n";

/// What the host-side operations leave behind, as far as later operations can tell
#[derive(Clone, Debug, Default)]
pub struct HostModel {
    pub flaky_fails: bool,
    /// the `flaky` module is in the runtime's module cache (it is not run again)
    pub flaky_cached: bool,
    /// NIT / NPULL are exported
    pub next_made: bool,
}

impl HostModel {
    /// the prediction for one of the simple host operations (None: not one of them)
    pub fn predict(&mut self, op: &Op, clears_exports: bool) -> Option<Prediction> {
        let mut pr = Prediction::default();
        match op {
            Op::SetFlaky(b) => {
                self.flaky_fails = *b;
                pr.result = Ok("null".into());
            }
            Op::ClearCache => {
                self.flaky_cached = false;
                crate::simmodel::set_okmod_loaded(false);
                pr.result = Ok("null".into());
            }
            Op::MakeNext => {
                self.next_made = true;
                pr.result = Ok("made".into());
            }
            Op::PullNext => {
                pr.result = Err(if self.next_made { "NX".into() } else { "no exported function named 'NPULL' found".to_string() });
                pr.error_occurred = true;
            }
            Op::Import(ImportKind::Flaky) => {
                if clears_exports {
                    self.next_made = false;
                }
                if self.flaky_cached {
                    pr.result = Ok("7".into());
                } else {
                    pr.markers = vec![4343];
                    if self.flaky_fails {
                        pr.result = Err("FLAKY".into());
                        pr.error_occurred = true;
                    } else {
                        pr.result = Ok("7".into());
                        self.flaky_cached = true;
                    }
                }
            }
            Op::Run { .. } | Op::RunBad | Op::Import(_) => {
                if clears_exports {
                    self.next_made = false;
                }
                return None;
            }
            _ => return None,
        }
        Some(pr)
    }
}

pub fn make_gen_script(func: usize) -> String {
    format!(
        "export GG = GEN{func}(0)\nexport PULL = ||\n  r = GG.next()\n  if r == null\n    return -99\n  return r.get()\n'made'\n"
    )
}

fn import_script(k: ImportKind) -> &'static str {
    match k {
        ImportKind::Ok => "import okmod\nokmod.x\n",
        ImportKind::FailTop => "import failtop\n1\n",
        ImportKind::FailTest => "import failtest\n1\n",
        ImportKind::FailMain => "import failmain\n1\n",
        ImportKind::Cycle => "import cyc_a\n1\n",
        ImportKind::BadSyntax => "import badsyntax\n1\n",
        ImportKind::Missing => "import nosuchmodule\n1\n",
        ImportKind::BadMain => "import badmain\n1\n",
        ImportKind::Flaky => "import flaky\nflaky.fv\n",
        // (`<dir>` is replaced by the name of the directory the scripts live in)
        ImportKind::FailTopDotted => "import '../<dir>/failtop' as ft\n1\n",
        ImportKind::CaughtFailTop => "r = try\n  import failtop\n  1\ncatch e\n  2\nr\n",
    }
}

/// the error a failing import must report (prefix of the first line): the module's own error,
/// every time it is imported - a failed import leaves nothing behind
fn import_error_prefix(k: ImportKind) -> &'static str {
    match k {
        ImportKind::FailTop => "FT",
        ImportKind::FailTest => "FTEST",
        ImportKind::FailMain => "FMAIN",
        ImportKind::Cycle => "recursive import of module",
        ImportKind::BadSyntax => "expected expression",
        ImportKind::Missing => "unable to find module 'nosuchmodule'",
        ImportKind::BadMain => "expected callable function, found Number",
        ImportKind::FailTopDotted => "FT",
        _ => "",
    }
}

fn import_expect(k: ImportKind) -> Result<&'static str, ()> {
    match k {
        ImportKind::Ok => Ok("1"),
        ImportKind::CaughtFailTop => Ok("2"),
        _ => Err(()),
    }
}

fn spin_script(k: SpinKind) -> &'static str {
    match k {
        SpinKind::Top => "n = 0\nloop\n  n += 1\n",
        SpinKind::InNativeCallback => "sp = |x|\n  n = 0\n  loop\n    n += 1\n(1..=2).each(|x| sp(x)).count()\n",
        SpinKind::InGenerator => "g = ||\n  n = 0\n  loop\n    n += 1\n  yield 1\nfor v in g()\n  v\n",
        SpinKind::InsideInterpolation => "sp = ||\n  n = 0\n  loop\n    n += 1\ns = [1, 'a{sp()}b']\n",
    }
}

/// Probe scripts: self-contained, export nothing, all work inside a function literal
pub const PROBES: &[&str] = &[
    "f = ||\n  g = |n| 'v{n}w'\n  'a{g(1)}b{g(2)}c'\nf()\n",
    "f = ||\n  l = [1, (2, 3), {k: [4, 5]}]\n  l.push((6, [7]))\n  '{l}'\nf()\n",
    // (the function is passed to itself: a closure that captures itself is a reference cycle
    // that koto's reference counting never frees, which would leak in every probe run)
    "f = ||\n  d = |g, n| if n == 0 then 0 else 1 + g(g, n - 1)\n  d(d, 150)\nf()\n",
    "f = ||\n  g = |n|\n    for i in 0..n\n      yield i * 2\n  g(5).each(|x| x + 1).keep(|x| x > 2).to_tuple()\nf()\n",
    "f = ||\n  r = []\n  x = try\n    r.push(1)\n    throw 'boom'\n  catch e\n    r.push(e)\n    2\n  finally\n    r.push(3)\n    4\n  '{x} {r}'\nf()\n",
    "f = ||\n  o =\n    @+: |other| 10 + other\n    @display: || 'obj'\n  '{o + 5} {o}'\nf()\n",
    "f = ||\n  koto.run('a = [1, 2]\\n\\'\\{a}x\\'')\nf()\n",
    "f = ||\n  a, b = [1, 2], 'x{3}y'\n  m = {a, b}\n  m.update('a', |l| size l)\n  '{m}'\nf()\n",
];

// ---------------------------------------------------------------------------------------------
// Generation

pub fn gen_history(seed: u64) -> History {
    let mut k = Rng::fork(seed, "knobs");
    let mut r = Rng::fork(seed, "scenario");
    let mut fr = Rng::fork(seed, "faults");
    let with_limit = k.chance(1, 6);
    let run_tests = !with_limit && k.chance(1, 5);
    let nops = r.range(3, 10) as usize;
    let many_failing_calls = k.chance(1, 25);
    let mut knobs = GenKnobs::swarm(&mut k);
    // the step cap of a history's operations is fixed: only short storms here (the long ones,
    // which make residue accumulate within one frame, are unwindsim's)
    knobs.max_storm = knobs.max_storm.min(30);
    let mut ops: Vec<Op> = vec![];
    let mut cur_funcs = 0usize;
    let mut gl_model: Vec<i64> = vec![];
    let mut cur: Option<(Program, Printed)> = None;
    // exported generator: (function, next index, dead)
    let mut gen_state: Option<(usize, i64, bool)> = None;

    // choose a fault position inside an operation from the model's own fault-free run
    let mut pick_plan = |fr: &mut Rng, p: &Program, printed: &Printed, entry: Entry, gl: &Vec<i64>| -> FaultPlan {
        let mut plan = FaultPlan::new();
        if fr.chance(2, 5) {
            let base = Model::run_entry(
                p,
                printed,
                &plan,
                ModelOpts { tick_start: 0, finally_on_abrupt_exit: false },
                entry,
                gl.clone(),
            );
            if base.ticks > 0 {
                let pos = 1 + fr.below(base.ticks as u64) as u32;
                let kind = *fr.pick(&[
                    FaultKind::HostErr,
                    FaultKind::HostErr,
                    FaultKind::HostThrow(1),
                    FaultKind::HostThrow(2),
                    FaultKind::BadVal,
                ]);
                plan.insert(pos, kind);
                if fr.chance(1, 5) {
                    plan.insert(pos + 1 + fr.below(3) as u32, FaultKind::HostErr);
                }
            }
        }
        plan
    };

    for i in 0..nops {
        let choice = if i == 0 { 0 } else { r.below(20) };
        let op = match choice {
            0..=6 => {
                let mut p = simlang::generate(&mut r, &knobs);
                // avoid the known finally deviation inside histories: C07 is about residue
                strip_finally(&mut p);
                let mut tests = vec![];
                let mut main_call = None;
                if run_tests && !p.funcs.is_empty() {
                    for _ in 0..r.range(0, 2) {
                        tests.push((r.usize_below(p.funcs.len()), r.irange(0, 5)));
                    }
                    if r.chance(1, 3) {
                        main_call = Some((r.usize_below(p.funcs.len()), r.irange(0, 5)));
                    }
                }
                if run_tests {
                    // the host clears the exports before every Run of such a history
                    gl_model.clear();
                }
                let printed = print_run(&p, i == 0 || run_tests, &tests, main_call);
                // fault position: anywhere in the script, its tests or @main
                let mut plan = FaultPlan::new();
                if fr.chance(2, 5) {
                    let base = predict_run(&p, &printed, &plan, gl_model.clone(), &tests, main_call, run_tests);
                    if base.ticks > 0 {
                        let pos = 1 + fr.below(base.ticks as u64) as u32;
                        plan.insert(
                            pos,
                            *fr.pick(&[FaultKind::HostErr, FaultKind::HostErr, FaultKind::HostThrow(1), FaultKind::HostThrow(2), FaultKind::BadVal]),
                        );
                    }
                }
                let pred = predict_run(&p, &printed, &plan, gl_model.clone(), &tests, main_call, run_tests);
                gl_model = pred.gl.clone();
                // exported @test / @main persist and would run after EVERY later compile_and_run:
                // in such histories the host clears the exports before every script and before
                // the probe battery, so nothing exported earlier can be called afterwards
                cur_funcs = if run_tests { 0 } else { p.funcs.len() };
                cur = Some((p.clone(), printed));
                gen_state = None;
                Op::Run { prog: p, plan, tests, main_call }
            }
            7..=10 if cur_funcs > 0 => {
                let func = r.usize_below(cur_funcs);
                let args = match r.below(6) {
                    0 => Args::None,
                    1 => Args::Two,
                    _ => Args::One(r.irange(-5, 9)),
                };
                let (p, printed) = cur.as_ref().unwrap();
                let plan = if let Args::One(a) = args {
                    let plan = pick_plan(&mut fr, p, printed, Entry::Func(func, a), &gl_model);
                    let pred = Model::run_entry(
                        p,
                        printed,
                        &plan,
                        ModelOpts { tick_start: 0, finally_on_abrupt_exit: false },
                        Entry::Func(func, a),
                        gl_model.clone(),
                    );
                    gl_model = pred.gl.clone();
                    plan
                } else {
                    FaultPlan::new()
                };
                Op::Call { func, args, plan }
            }
            11..=12 if cur_funcs > 0 => {
                let func = r.usize_below(cur_funcs);
                let (p, printed) = cur.as_ref().unwrap();
                let plan = pick_plan(&mut fr, p, printed, Entry::Display(func), &gl_model);
                let pred = Model::run_entry(
                    p,
                    printed,
                    &plan,
                    ModelOpts { tick_start: 0, finally_on_abrupt_exit: false },
                    Entry::Display(func),
                    gl_model.clone(),
                );
                gl_model = pred.gl.clone();
                Op::Show { func, plan }
            }
            13 if cur_funcs > 0 && r.chance(1, 2) => {
                let func = r.usize_below(cur_funcs);
                let arg = r.irange(-5, 9);
                let (p, printed) = cur.as_ref().unwrap();
                let plan = pick_plan(&mut fr, p, printed, Entry::Func(func, arg), &gl_model);
                let pred = Model::run_entry(p, printed, &plan, mopts(0), Entry::Func(func, arg), gl_model.clone());
                gl_model = pred.gl.clone();
                Op::CallInstance { func, arg, plan }
            }
            14 if cur_funcs > 0 && gen_state.is_none() && r.chance(2, 3) => {
                let func = r.usize_below(cur_funcs);
                gen_state = Some((func, 0, false));
                Op::MakeGen { func }
            }
            11..=14 if gen_state.is_some() && r.chance(1, 2) => {
                let (func, ix, dead) = gen_state.unwrap();
                if dead || ix >= 2 {
                    Op::Pull { plan: FaultPlan::new() }
                } else {
                    let (p, printed) = cur.as_ref().unwrap();
                    let plan = pick_plan(&mut fr, p, printed, Entry::Func(func, ix), &gl_model);
                    let pred = Model::run_entry(p, printed, &plan, mopts(0), Entry::Func(func, ix), gl_model.clone());
                    gl_model = pred.gl.clone();
                    gen_state = Some((func, ix + 1, pred.result.is_err()));
                    Op::Pull { plan }
                }
            }
            13 => Op::CallNonCallable,
            14 => Op::CallMissing,
            15 if !run_tests => Op::ShowGlobals,
            16 => Op::RunBad,
            17..=18 => Op::Import(*r.pick(&[
                ImportKind::Ok,
                ImportKind::FailTop,
                ImportKind::FailTest,
                ImportKind::FailMain,
                ImportKind::Cycle,
                ImportKind::BadSyntax,
                ImportKind::Missing,
                ImportKind::CaughtFailTop,
                ImportKind::BadMain,
            ])),
            19 if !with_limit && r.chance(2, 3) => match r.below(8) {
                0 => Op::SetFlaky(true),
                1 => Op::SetFlaky(false),
                2 => Op::ClearCache,
                3 | 4 => Op::Import(ImportKind::Flaky),
                5 => Op::Import(ImportKind::FailTopDotted),
                // (histories whose instance runs tests clear the exports all the time)
                6 if !run_tests => Op::MakeNext,
                7 if !run_tests => Op::PullNext,
                _ => Op::Import(ImportKind::Flaky),
            },
            19 if with_limit => Op::Spin(*r.pick(&[
                SpinKind::Top,
                SpinKind::InNativeCallback,
                SpinKind::InGenerator,
                SpinKind::InsideInterpolation,
            ])),
            _ if !run_tests => Op::ShowGlobals,
            _ => Op::RunBad,
        };
        ops.push(op);
    }
    if !with_limit && k.chance(1, 10) {
        // a module that changes between imports (the host clears the loader's cache, as
        // documented, for it to be compiled again): the storyline, with random substitutions
        let story = [
            Op::Import(ImportKind::Flaky),
            Op::ClearCache,
            Op::SetFlaky(true),
            Op::Import(ImportKind::Flaky),
            Op::Import(ImportKind::Flaky),
            Op::SetFlaky(false),
            Op::Import(ImportKind::Flaky),
            Op::Import(ImportKind::Ok),
        ];
        for op in story {
            if r.chance(1, 5) {
                ops.push(match r.below(6) {
                    0 => Op::SetFlaky(true),
                    1 => Op::SetFlaky(false),
                    2 => Op::ClearCache,
                    3 => Op::Import(ImportKind::FailTopDotted),
                    4 => Op::Import(ImportKind::Ok),
                    _ => Op::Import(ImportKind::Flaky),
                });
            } else if !r.chance(1, 8) {
                ops.push(op);
            }
        }
    }
    if many_failing_calls && !with_limit && !run_tests && r.chance(1, 3) {
        // (the same, for failures inside a VM that an exported iterator owns)
        ops.push(Op::MakeNext);
        for _ in 0..r.range(40, 110) {
            ops.push(Op::PullNext);
        }
    } else if many_failing_calls && cur_funcs > 0 {
        // residue that accumulates per failure only misbehaves past a threshold
        let n = r.range(40, 110);
        for _ in 0..n {
            ops.push(Op::Call {
                func: 0,
                args: Args::None,
                plan: FaultPlan::new(),
            });
        }
        ops.push(Op::Call {
            func: 0,
            args: Args::One(1),
            plan: FaultPlan::new(),
        });
    }
    History {
        ops,
        with_limit,
        run_tests,
    }
}

fn strip_finally(p: &mut Program) {
    fn blk(b: &mut Block) {
        for s in b.stmts.iter_mut() {
            match s {
                Stmt::If(_, t, e) => {
                    blk(t);
                    blk(e);
                }
                Stmt::For(_, _, b) | Stmt::While(_, _, b) => blk(b),
                Stmt::Try(t) => {
                    t.finally = None;
                    blk(&mut t.body);
                    for c in t.catches.iter_mut() {
                        blk(&mut c.block);
                    }
                }
                _ => {}
            }
        }
    }
    blk(&mut p.main.body);
    for f in p.funcs.iter_mut() {
        blk(&mut f.body);
    }
}

pub fn print_op(p: &Program, first: bool) -> Printed {
    print_run(p, first, &[], None)
}

pub fn print_run(p: &Program, define_globals: bool, tests: &[(usize, i64)], main_call: Option<(usize, i64)>) -> Printed {
    simlang::print(
        p,
        &PrintOpts {
            noise_seed: None,
            main_is_module_body: false,
            define_globals,
            tests: tests.to_vec(),
            main_call,
        },
    )
}

fn mopts(tick_start: u32) -> ModelOpts {
    ModelOpts {
        tick_start,
        finally_on_abrupt_exit: false,
    }
}

fn merge(p: &mut Prediction, q: Prediction) {
    p.markers.extend(q.markers);
    p.caught.extend(q.caught);
    p.caught_runtime.extend(q.caught_runtime);
    p.dumps.extend(q.dumps);
    p.stdout.push_str(&q.stdout);
    p.ticks = q.ticks;
    p.fired += q.fired;
    p.gl = q.gl;
    p.error_occurred |= q.error_occurred;
    p.model_steps += q.model_steps;
    p.storm_iterations += q.storm_iterations;
    p.sig.extend(q.sig);
    if p.model_gap.is_none() {
        p.model_gap = q.model_gap;
    }
}

/// The model's prediction of a whole `Koto::run`: the script, then its exported tests when
/// enabled (first failure is returned with the test runner's context), then `@main`
pub fn predict_run(
    prog: &Program,
    printed: &Printed,
    plan: &FaultPlan,
    gl: Vec<i64>,
    tests: &[(usize, i64)],
    main_call: Option<(usize, i64)>,
    run_tests: bool,
) -> Prediction {
    let mut p = Model::run_entry(prog, printed, plan, mopts(0), Entry::Main, gl);
    if p.result.is_err() {
        return p;
    }
    if run_tests {
        for (n, (k, a)) in tests.iter().enumerate() {
            let q = Model::run_entry(prog, printed, plan, mopts(p.ticks), Entry::Func(*k, *a), p.gl.clone());
            let r = q.result.clone();
            let rethrown = q.rethrown_runtime;
            merge(&mut p, q);
            if let Err(c) = r {
                p.result = Err(format!("{c} (while running test 't{n}')"));
                if rethrown {
                    p.result_alt = Some(c);
                }
                return p;
            }
        }
    }
    if let Some((k, a)) = main_call {
        let q = Model::run_entry(prog, printed, plan, mopts(p.ticks), Entry::Func(k, a), p.gl.clone());
        let r = q.result.clone();
        merge(&mut p, q);
        p.result = r;
    }
    p
}

// ---------------------------------------------------------------------------------------------
// Execution of a history on one instance

#[derive(Clone, Debug, Default, PartialEq)]
pub struct OpObs {
    pub markers: Vec<u32>,
    pub caught: Vec<(u32, String)>,
    pub dumps: Vec<String>,
    pub stdout: String,
    pub result: Option<Result<String, String>>,
    pub panic: Option<String>,
    pub step_cap: bool,
    pub instructions: u64,
    pub fired: u32,
    /// the H3 state tuple when control is back in the host
    pub state: [usize; 7],
    pub exports_replaced: bool,
    /// probe results (only after a failed operation)
    pub probes: Vec<Result<String, String>>,
}

pub struct Instance {
    /// histories whose instance runs tests: exports are cleared before every Run
    pub clear_exports_before_run: bool,
    pub host: Host,
    pub ts: SharedTick,
    pub exports: KMap,
    pub script_path: String,
    /// the switch read by the `flaky` module
    pub flaky: std::sync::Arc<std::sync::atomic::AtomicBool>,
}

pub fn new_instance(h: &History, scratch: &Scratch) -> Instance {
    let host = Host::new(HostSettings {
        run_tests: h.run_tests,
        run_import_tests: true,
        execution_limit_ns: if h.with_limit { Some(LIMIT_NS) } else { None },
        builder_order_seed: h.ops.len() as u64,
    });
    let ts: SharedTick = Default::default();
    add_sim_natives(&host, &ts);
    let flaky = std::sync::Arc::new(std::sync::atomic::AtomicBool::new(false));
    let flag = flaky.clone();
    host.koto.prelude().add_fn("FLAKY_FAILS", move |_| {
        Ok(flag.load(std::sync::atomic::Ordering::SeqCst).into())
    });
    let exports = host.koto.exports().clone();
    Instance {
        flaky,
        clear_exports_before_run: h.run_tests,
        host,
        ts,
        exports,
        script_path: scratch.dir.join("main.koto").to_string_lossy().to_string(),
    }
}

pub fn prepare_scratch(scratch: &Scratch) {
    for (name, text) in MODULES {
        std::fs::write(scratch.dir.join(name), text).expect("write module");
    }
}

fn state_tuple(koto: &Koto) -> [usize; 7] {
    let s = koto.verif_vm().verif_state();
    [
        s.registers,
        s.call_stack,
        s.sequence_builders,
        s.string_builders,
        s.register_base,
        s.min_frame_registers,
        s.module_cache_placeholders,
    ]
}

const STATE_NAMES: [&str; 7] = [
    "registers",
    "call_stack",
    "sequence_builders",
    "string_builders",
    "register_base",
    "min_frame_registers",
    "module_cache_placeholders",
];

fn run_probes(koto: &mut Koto) -> Vec<Result<String, String>> {
    PROBES
        .iter()
        .map(|p| {
            let r = catch_unwind(AssertUnwindSafe(|| {
                let r = koto.compile_and_run(*p);
                host::render_result(koto, r).map_err(|e| host::first_line(&e))
            }));
            match r {
                Ok(r) => r,
                Err(_) => Err(format!(
                    "PANIC: {}",
                    host::take_last_panic().unwrap_or_default().replace('\n', " ")
                )),
            }
        })
        .collect()
}

pub fn exec_op(
    inst: &mut Instance,
    op: &Op,
    source: Option<&str>,
    clock: &Rc<VClock>,
    with_probes: bool,
    step_cap: u64,
) -> OpObs {
    let mut o = OpObs::default();
    {
        let mut t = inst.ts.lock().unwrap();
        t.count = 0;
        t.fired = 0;
        t.ids.clear();
        t.caught.clear();
        t.dumps.clear();
        t.plan = match op {
            Op::Run { plan, .. }
            | Op::Call { plan, .. }
            | Op::CallInstance { plan, .. }
            | Op::Pull { plan }
            | Op::Show { plan, .. } => plan.clone(),
            _ => FaultPlan::new(),
        };
    }
    inst.host.take_log();
    inst.host.stdout.take_output();
    clock.record_entries.set(false);
    clock.reset_keep_time(CostProfile::constant(1), 1, step_cap, 1_000);
    let script_path = inst.script_path.clone();
    let clear_exports = inst.clear_exports_before_run;
    let flaky = inst.flaky.clone();
    let koto = &mut inst.host.koto;
    let r = catch_unwind(AssertUnwindSafe(|| -> Result<String, String> {
        let render = |koto: &mut Koto, r: koto::Result<KValue>| match r {
            Ok(v) => host::render_result(koto, Ok(v)).map_err(|e| host::first_line(&e)),
            Err(e) => Err(host::first_line(&e.to_string())),
        };
        match op {
            Op::Run { .. } => {
                if clear_exports {
                    // the documented way to initialise a new script on a long-lived instance
                    koto.exports_mut().clear();
                }
                let args = koto::CompileArgs::new(source.unwrap()).script_path(script_path.as_str());
                let r = koto.compile_and_run(args);
                render(koto, r)
            }
            Op::MakeGen { func } => {
                let r = koto.compile_and_run(&make_gen_script(*func));
                render(koto, r)
            }
            Op::Pull { .. } => {
                let r = koto.call_exported_function("PULL", &[]);
                render(koto, r)
            }
            Op::CallInstance { func, arg, .. } => {
                let obj = koto.exports().get("OBJ");
                let f = match &obj {
                    Some(KValue::Map(m)) => m.get(format!("m{func}").as_str()),
                    _ => None,
                };
                match (obj, f) {
                    (Some(o), Some(f)) => {
                        let r = koto.call_instance_function(o, f, &[KValue::from(*arg)]);
                        render(koto, r)
                    }
                    _ => Err("OBJ.m missing".into()),
                }
            }
            Op::Call { func, args, .. } => {
                let name = format!("f{func}");
                let r = match args {
                    Args::One(a) => koto.call_exported_function(&name, &[KValue::from(*a)]),
                    Args::None => koto.call_exported_function(&name, &[]),
                    Args::Two => {
                        koto.call_exported_function(&name, &[KValue::from(1), KValue::from(2)])
                    }
                };
                render(koto, r)
            }
            Op::CallNonCallable => {
                let r = koto.call_exported_function("GL", &[]);
                render(koto, r)
            }
            Op::CallMissing => {
                let r = koto.call_exported_function("no_such_function", &[]);
                render(koto, r)
            }
            Op::Show { func, .. } => match koto.exports().get(format!("OPD{func}").as_str()) {
                Some(v) => koto
                    .value_to_string(v)
                    .map_err(|e| host::first_line(&e.to_string())),
                None => Err("OPD missing".into()),
            },
            Op::ShowGlobals => match koto.exports().get("GL") {
                Some(v) => koto
                    .value_to_string(v)
                    .map_err(|e| host::first_line(&e.to_string())),
                None => Err("GL missing".into()),
            },
            Op::RunBad => {
                if clear_exports {
                    koto.exports_mut().clear();
                }
                let r = koto.compile_and_run("x = (1 +\n");
                render(koto, r)
            }
            Op::Import(k) => {
                if clear_exports {
                    koto.exports_mut().clear();
                }
                let dir_name = std::path::Path::new(script_path.as_str())
                    .parent()
                    .and_then(|d| d.file_name())
                    .map(|n| n.to_string_lossy().to_string())
                    .unwrap_or_default();
                let script = import_script(*k).replace("<dir>", &dir_name);
                let args = koto::CompileArgs::new(script.as_str()).script_path(script_path.as_str());
                let r = koto.compile_and_run(args);
                render(koto, r)
            }
            Op::Spin(k) => {
                let r = koto.compile_and_run(spin_script(*k));
                render(koto, r)
            }
            Op::SetFlaky(b) => {
                flaky.store(*b, std::sync::atomic::Ordering::SeqCst);
                Ok("null".into())
            }
            Op::ClearCache => {
                koto.clear_module_cache();
                Ok("null".into())
            }
            Op::MakeNext => {
                let r = koto.compile_and_run(MAKE_NEXT_SCRIPT);
                render(koto, r)
            }
            Op::PullNext => {
                let r = koto.call_exported_function("NPULL", &[]);
                render(koto, r)
            }
        }
    }));
    o.instructions = clock.instructions();
    match r {
        Ok(r) => o.result = Some(r),
        Err(p) => {
            clock.abandon();
            if p.downcast_ref::<StepCapExceeded>().is_some() {
                o.step_cap = true;
            } else {
                o.panic = Some(host::take_last_panic().unwrap_or_else(|| "panic".into()));
            }
        }
    }
    let log = inst.host.take_log();
    o.markers = log.markers.iter().map(|m| *m as u32).collect();
    {
        let mut t = inst.ts.lock().unwrap();
        o.caught = std::mem::take(&mut t.caught);
        o.dumps = std::mem::take(&mut t.dumps);
        o.fired = t.fired;
    }
    o.stdout = inst.host.stdout.take_output();
    o.state = state_tuple(&inst.host.koto);
    o.exports_replaced = !inst.host.koto.exports().is_same_instance(&inst.exports);
    if with_probes && o.panic.is_none() && !o.step_cap {
        if inst.clear_exports_before_run {
            inst.host.koto.exports_mut().clear();
        }
        clock.reset_keep_time(CostProfile::constant(1), 1, STEP_CAP, 1_000);
        o.probes = run_probes(&mut inst.host.koto);
    }
    o
}

// ---------------------------------------------------------------------------------------------
// The whole history: real run, model run, oracles

#[derive(Clone, Debug, PartialEq)]
pub struct Violation {
    pub class: String,
    pub detail: String,
    pub op_index: usize,
}

pub struct HistEval {
    pub violation: Option<Violation>,
    pub harness_error: Option<String>,
    pub digest: u64,
    pub instructions: u64,
    pub executions: u64,
    pub failed_ops: u64,
    pub faults_fired: u64,
    pub sigs: Vec<u64>,
    pub counters: Vec<(&'static str, u64)>,
    pub inconclusive: bool,
    pub log: Vec<Value>,
}

pub struct HistWorkerState {
    pub clock: Rc<VClock>,
    pub scratch: Scratch,
    pub fresh_probes: Vec<Result<String, String>>,
}

impl HistWorkerState {
    pub fn new(tag: &str) -> Self {
        let clock = host::install_clock();
        let scratch = Scratch::new(tag);
        prepare_scratch(&scratch);
        // the reference results of the probe battery on a brand-new instance
        let h = History {
            ops: vec![],
            with_limit: false,
            run_tests: false,
        };
        let mut inst = new_instance(&h, &scratch);
        clock.reset_keep_time(CostProfile::constant(1), 1, STEP_CAP, 1_000);
        let fresh_probes = run_probes(&mut inst.host.koto);
        Self {
            clock,
            scratch,
            fresh_probes,
        }
    }
}

pub fn evaluate(h: &History, ws: &HistWorkerState) -> HistEval {
    let mut ev = HistEval {
        violation: None,
        harness_error: None,
        digest: 0,
        instructions: 0,
        executions: 0,
        failed_ops: 0,
        faults_fired: 0,
        sigs: vec![],
        counters: vec![],
        inconclusive: false,
        log: vec![],
    };
    let mut dg = Digest::new();
    let mut inst = new_instance(h, &ws.scratch);
    let mut gl: Vec<i64> = vec![];
    let mut cur: Option<(Program, Printed)> = None;
    let mut gen_state: Option<(usize, i64, bool)> = None;
    let mut any_failed = false;
    let mut first_run = true;
    let mut kinds: Vec<(&'static str, bool)> = vec![];
    let mut n_probe_batteries = 0u64;
    let mut residue_seen = 0u64;

    let mut okmod_loaded = false;
    let mut host_model = HostModel::default();
    for (i, op) in h.ops.iter().enumerate() {
        // the model's prediction for this operation
        crate::simmodel::set_okmod_loaded(okmod_loaded);
        let simple = host_model.predict(op, h.run_tests);
        let mut expect_markers: Option<Vec<u32>> = None;
        let mut pred: Option<Prediction> = None;
        let mut expect_err_only: Option<bool> = None; // Some(true) = must fail, Some(false) = must succeed
        let mut expect_value: Option<String> = None;
        let mut source: Option<String> = None;
        match op {
            _ if simple.is_some() => pred = simple,
            Op::SetFlaky(_) | Op::ClearCache | Op::MakeNext | Op::PullNext => unreachable!(),
            Op::Run { prog, plan, tests, main_call } => {
                let printed = print_run(prog, first_run || h.run_tests, tests, *main_call);
                first_run = false;
                if h.run_tests {
                    gl.clear();
                }
                let p = predict_run(prog, &printed, plan, gl.clone(), tests, *main_call, h.run_tests);
                gl = p.gl.clone();
                gen_state = None;
                source = Some(printed.source.clone());
                cur = Some((prog.clone(), printed));
                pred = Some(p);
            }
            Op::Call { func, args, plan } => {
                let Some((p, printed)) = cur.as_ref() else {
                    ev.harness_error = Some("Call before any Run".into());
                    return ev;
                };
                if *func >= p.funcs.len() {
                    // the function does not exist in the current program (after shrinking)
                    expect_err_only = Some(true);
                } else {
                    match args {
                        Args::One(a) => {
                            let pr = Model::run_entry(
                                p,
                                printed,
                                plan,
                                ModelOpts { tick_start: 0, finally_on_abrupt_exit: false },
                                Entry::Func(*func, *a),
                                gl.clone(),
                            );
                            gl = pr.gl.clone();
                            pred = Some(pr);
                        }
                        _ => expect_err_only = Some(true),
                    }
                }
            }
            Op::MakeGen { func } => {
                if cur.as_ref().is_some_and(|c| *func < c.0.funcs.len()) {
                    gen_state = Some((*func, 0, false));
                    expect_value = Some("made".into());
                } else {
                    gen_state = None;
                    expect_err_only = Some(true);
                }
            }
            Op::Pull { plan } => match (gen_state, cur.as_ref()) {
                (Some((func, ix, dead)), Some((p, printed))) if func < p.funcs.len() => {
                    if dead || ix >= 2 {
                        // a generator that finished or failed yields nothing more
                        expect_value = Some("-99".into());
                    } else {
                        let pr = Model::run_entry(p, printed, plan, mopts(0), Entry::Func(func, ix), gl.clone());
                        gl = pr.gl.clone();
                        gen_state = Some((func, ix + 1, pr.result.is_err()));
                        pred = Some(pr);
                    }
                }
                _ => expect_err_only = Some(true),
            },
            Op::CallInstance { func, arg, plan } => {
                let Some((p, printed)) = cur.as_ref() else {
                    ev.harness_error = Some("CallInstance before any Run".into());
                    return ev;
                };
                if *func >= p.funcs.len() {
                    expect_err_only = Some(true);
                } else {
                    let pr = Model::run_entry(p, printed, plan, mopts(0), Entry::Func(*func, *arg), gl.clone());
                    gl = pr.gl.clone();
                    pred = Some(pr);
                }
            }
            Op::Show { func, plan } => {
                let Some((p, printed)) = cur.as_ref() else {
                    ev.harness_error = Some("Show before any Run".into());
                    return ev;
                };
                if *func >= p.funcs.len() {
                    expect_err_only = Some(true);
                } else {
                    let pr = Model::run_entry(
                        p,
                        printed,
                        plan,
                        ModelOpts { tick_start: 0, finally_on_abrupt_exit: false },
                        Entry::Display(*func),
                        gl.clone(),
                    );
                    gl = pr.gl.clone();
                    pred = Some(pr);
                }
            }
            Op::CallNonCallable | Op::CallMissing | Op::RunBad => expect_err_only = Some(true),
            Op::ShowGlobals => expect_value = Some(fmt_list(&gl)),
            Op::Import(k) => {
                match import_expect(*k) {
                    Ok(v) => expect_value = Some(v.to_string()),
                    Err(()) => expect_err_only = Some(true),
                }
                if *k == ImportKind::Ok {
                    // the module's top level runs once per runtime, whatever failed in between
                    expect_markers = Some(if okmod_loaded { vec![] } else { vec![4242] });
                    crate::simmodel::set_okmod_loaded(true);
                }
            }
            Op::Spin(_) => expect_err_only = Some(true),
        }
        okmod_loaded = crate::simmodel::okmod_loaded();
        if let Some(p) = &pred
            && let Some(gap) = &p.model_gap
        {
            ev.harness_error = Some(format!("model gap: {gap}"));
            return ev;
        }

        let model_says_fail = match (&pred, expect_err_only) {
            (Some(p), _) => p.result.is_err(),
            (None, Some(f)) => f,
            _ => false,
        };
        // the step cap allows for what the model says the operation does
        let cap = STEP_CAP + pred.as_ref().map_or(0, |p| 400 * p.model_steps + 200 * p.storm_iterations);
        let obs = exec_op(&mut inst, op, source.as_deref(), &ws.clock, model_says_fail || any_failed, cap);
        ev.executions += 1;
        ev.instructions += obs.instructions;
        ev.faults_fired += obs.fired as u64;
        for m in &obs.markers {
            dg.u64(*m as u64);
        }
        for d in &obs.dumps {
            dg.str(d);
        }
        dg.str(&obs.stdout);
        dg.str(&format!("{:?}", obs.result));
        for s in obs.state {
            dg.u64(s as u64);
        }
        let failed = !matches!(&obs.result, Some(Ok(_)));
        if h.with_limit && !matches!(op, Op::Spin(_)) && obs.instructions > LIMIT_NS / 4 {
            // too close to the execution limit for the no-timeout prediction to be certain
            ev.inconclusive = true;
            ev.digest = dg.0;
            return ev;
        }
        ev.log.push(json!({
            "op": i, "kind": op.kind(),
            "result": match &obs.result { Some(Ok(v)) => json!({"ok": v}), Some(Err(e)) => json!({"err": e}), None => json!("did not return") },
            "state": obs.state, "markers": obs.markers,
        }));

        // --- oracles
        let mut v: Option<(String, String)> = None;
        if let Some(p) = &obs.panic {
            v = Some(("panic".into(), p.replace('\n', " ")));
        } else if obs.step_cap {
            v = Some(("no-return".into(), format!("operation {} ({}) exceeded the step cap", i, op.kind())));
        }
        // (A) reference model
        if v.is_none() {
            if let Some(p) = &pred {
                let o = unwindsim::Observed {
                    markers: obs.markers.clone(),
                    caught: obs.caught.clone(),
                    dumps: obs.dumps.clone(),
                    stdout: obs.stdout.clone(),
                    result: obs.result.clone().unwrap(),
                    ..Default::default()
                };
                let mut p2 = p.clone();
                p2.tick_ids.clear();
                if let Some(x) = unwindsim::compare(&p2, &o) {
                    v = Some((format!("model:{}", x.class), x.detail));
                }
            } else if let Some(must_fail) = expect_err_only {
                if must_fail != failed {
                    v = Some((
                        "model:result".into(),
                        format!("{} expected to {}, got {:?}", op.kind(), if must_fail { "fail" } else { "succeed" }, obs.result),
                    ));
                } else if let (Op::Spin(_), Some(Err(e))) = (op, &obs.result)
                    && !e.contains(host::TIMEOUT_TEXT)
                {
                    v = Some(("model:result".into(), format!("spin returned {e}")));
                } else if let (Op::Import(k), Some(Err(e))) = (op, &obs.result)
                    && !e.starts_with(import_error_prefix(*k))
                {
                    v = Some((
                        "model:result".into(),
                        format!("import of kind {k:?} must fail with `{}…`, got `{e}`", import_error_prefix(*k)),
                    ));
                }
            } else if let Some(val) = &expect_value
                && obs.result != Some(Ok(val.clone()))
            {
                v = Some((
                    "model:result".into(),
                    format!("{} expected Ok({val}), got {:?}", op.kind(), obs.result),
                ));
            }
        }
        if v.is_none()
            && let Some(m) = &expect_markers
            && *m != obs.markers
        {
            v = Some((
                "model:markers".into(),
                format!("{}: a module's top level runs once per runtime: expected markers {m:?}, got {:?}", op.kind(), obs.markers),
            ));
        }
        // (C) no leftover execution state when control is back in the host
        if v.is_none() {
            if let Some(ix) = obs.state.iter().position(|x| *x != 0) {
                residue_seen += 1;
                v = Some((
                    format!("residue:{}", STATE_NAMES[ix]),
                    format!(
                        "after operation {} ({}, {}): {}",
                        i,
                        op.kind(),
                        if failed { "failed" } else { "succeeded" },
                        STATE_NAMES
                            .iter()
                            .zip(obs.state.iter())
                            .map(|(n, x)| format!("{n}={x}"))
                            .collect::<Vec<_>>()
                            .join(" ")
                    ),
                ));
            } else if obs.exports_replaced {
                v = Some(("residue:exports-replaced".into(), format!("after operation {i}")));
            }
        }
        // (B) probe battery vs a brand-new instance
        if v.is_none() && !obs.probes.is_empty() {
            n_probe_batteries += 1;
            for (pi, (a, b)) in obs.probes.iter().zip(ws.fresh_probes.iter()).enumerate() {
                if a != b {
                    v = Some((
                        "probe-differs".into(),
                        format!("probe {pi} after operation {i} ({}): this instance {a:?}, fresh instance {b:?}", op.kind()),
                    ));
                    break;
                }
            }
            // the probes themselves must leave nothing behind either
            if v.is_none() {
                let st = state_tuple(&inst.host.koto);
                if let Some(ix) = st.iter().position(|x| *x != 0) {
                    v = Some((format!("residue:{}", STATE_NAMES[ix]), format!("after the probe battery following operation {i}: {st:?}")));
                }
            }
        }
        if failed {
            ev.failed_ops += 1;
        }
        // an operation that returned Ok may still have met (and handled) a failure inside
        let internal_failure = pred.as_ref().is_some_and(|p| p.error_occurred)
            || matches!(op, Op::Import(ImportKind::CaughtFailTop));
        if failed || internal_failure {
            any_failed = true;
        }
        kinds.push((op.kind(), failed));
        if let Some((class, detail)) = v {
            if !any_failed {
                // nothing has failed yet: outside the property's domain => modelling problem
                ev.harness_error = Some(format!(
                    "mismatch before any failure at operation {i} ({}): {class}: {detail}",
                    op.kind()
                ));
            } else {
                ev.violation = Some(Violation {
                    class,
                    detail,
                    op_index: i,
                });
            }
            break;
        }
    }
    // signatures: (failed op kind -> next op kind) pairs and the failing op kinds
    for w in kinds.windows(2) {
        if w[0].1 {
            let mut d = Digest::new();
            d.str(w[0].0);
            d.str(w[1].0);
            d.u64(w[1].1 as u64);
            ev.sigs.push(d.0);
        }
    }
    ev.counters = vec![
        ("operations", h.ops.len() as u64),
        ("operations_failed", ev.failed_ops),
        ("fault.injected_in_operation.fired", ev.faults_fired),
        ("probe_batteries_run", n_probe_batteries),
        ("histories.with_execution_limit", h.with_limit as u64),
        ("histories.with_exported_tests_and_main", h.run_tests as u64),
        ("residue_observations", residue_seen),
    ];
    for (k, f) in &kinds {
        if *f {
            ev.counters.push((
                match *k {
                    "Run" => "failed.Run",
                    "Call" => "failed.Call",
                    "CallTooFewArgs" => "failed.CallTooFewArgs",
                    "CallInstance" => "failed.CallInstance",
                    "Pull" => "failed.Pull(generator element)",
                    "CallTooManyArgs" => "failed.CallTooManyArgs",
                    "CallNonCallable" => "failed.CallNonCallable",
                    "CallMissing" => "failed.CallMissing",
                    "Show" => "failed.Show",
                    "RunBad" => "failed.RunBad(compile error)",
                    "Import" => "failed.Import",
                    "Spin" => "failed.Spin(timeout)",
                    _ => "failed.other",
                },
                1,
            ));
        }
    }
    ev.digest = dg.0;
    ev
}

// ---------------------------------------------------------------------------------------------
// Minimisation

pub fn shrink(h: &History, class: &str, ws: &HistWorkerState) -> (History, usize) {
    let mut best = h.clone();
    let mut steps = 0usize;
    let still = |c: &History, ws: &HistWorkerState| -> bool {
        let e = evaluate(c, ws);
        e.harness_error.is_none() && e.violation.as_ref().is_some_and(|v| v.class == class)
    };
    // cut everything after the violating operation first
    if let Some(v) = evaluate(&best, ws).violation {
        best.ops.truncate(v.op_index + 1);
    }
    loop {
        let mut cands: Vec<History> = vec![];
        for i in (1..best.ops.len()).rev() {
            let mut c = best.clone();
            c.ops.remove(i);
            cands.push(c);
        }
        if best.with_limit {
            let mut c = best.clone();
            c.with_limit = false;
            c.ops.retain(|o| !matches!(o, Op::Spin(_)));
            cands.push(c);
        }
        for i in 0..best.ops.len() {
            match &best.ops[i] {
                Op::Run { prog, plan, tests, main_call } => {
                    if !plan.is_empty() {
                        let mut c = best.clone();
                        c.ops[i] = Op::Run { prog: prog.clone(), plan: FaultPlan::new(), tests: tests.clone(), main_call: *main_call };
                        cands.push(c);
                    }
                    if !tests.is_empty() || main_call.is_some() {
                        let mut c = best.clone();
                        c.ops[i] = Op::Run { prog: prog.clone(), plan: plan.clone(), tests: vec![], main_call: None };
                        cands.push(c);
                    }
                    let mut vars = program_variants(prog);
                    vars.truncate(400);
                    for pv in vars {
                        // tests / @main must keep referring to existing functions
                        if tests.iter().any(|(k, _)| *k >= pv.funcs.len())
                            || main_call.is_some_and(|(k, _)| k >= pv.funcs.len())
                        {
                            continue;
                        }
                        let mut c = best.clone();
                        c.ops[i] = Op::Run { prog: pv, plan: plan.clone(), tests: tests.clone(), main_call: *main_call };
                        cands.push(c);
                    }
                }
                Op::Pull { plan } if !plan.is_empty() => {
                    let mut c = best.clone();
                    c.ops[i] = Op::Pull { plan: FaultPlan::new() };
                    cands.push(c);
                }
                Op::CallInstance { func, arg, plan } if !plan.is_empty() => {
                    let mut c = best.clone();
                    c.ops[i] = Op::CallInstance { func: *func, arg: *arg, plan: FaultPlan::new() };
                    cands.push(c);
                }
                Op::Call { func, args, plan } if !plan.is_empty() => {
                    let mut c = best.clone();
                    c.ops[i] = Op::Call { func: *func, args: args.clone(), plan: FaultPlan::new() };
                    cands.push(c);
                }
                Op::Show { func, plan } if !plan.is_empty() => {
                    let mut c = best.clone();
                    c.ops[i] = Op::Show { func: *func, plan: FaultPlan::new() };
                    cands.push(c);
                }
                _ => {}
            }
        }
        let mut progressed = false;
        for c in cands {
            steps += 1;
            if steps > 2500 {
                break;
            }
            if still(&c, ws) {
                best = c;
                progressed = true;
                break;
            }
        }
        if !progressed || steps > 2500 {
            break;
        }
    }
    (best, steps)
}

// ---------------------------------------------------------------------------------------------
// JSON: a history is stored explicitly (sources, plans, host operations)

pub fn history_to_json(h: &History) -> Value {
    let mut first = true;
    let ops: Vec<Value> = h
        .ops
        .iter()
        .map(|op| match op {
            Op::Run { prog, plan, tests, main_call } => {
                let printed = print_run(prog, first || h.run_tests, tests, *main_call);
                first = false;
                json!({"op": "Run", "source": printed.source, "fault_plan": plan_to_json(plan), "clear_exports_first": h.run_tests})
            }
            Op::MakeGen { func } => json!({"op": "RunPlain", "source": make_gen_script(*func), "make_gen": func}),
            Op::Pull { plan } => json!({"op": "Call", "function": "PULL", "args": [], "fault_plan": plan_to_json(plan)}),
            Op::CallInstance { func, arg, plan } => json!({
                "op": "CallInstance", "instance": "OBJ", "function": format!("m{func}"), "args": [arg], "fault_plan": plan_to_json(plan)
            }),
            Op::Call { func, args, plan } => json!({
                "op": "Call", "function": format!("f{func}"),
                "args": match args { Args::One(a) => json!([a]), Args::None => json!([]), Args::Two => json!([1, 2]) },
                "fault_plan": plan_to_json(plan)
            }),
            Op::CallNonCallable => json!({"op": "Call", "function": "GL", "args": []}),
            Op::CallMissing => json!({"op": "Call", "function": "no_such_function", "args": []}),
            Op::Show { func, plan } => json!({"op": "Show", "value": format!("OPD{func}"), "fault_plan": plan_to_json(plan)}),
            Op::ShowGlobals => json!({"op": "Show", "value": "GL"}),
            Op::RunBad => json!({"op": "Run", "source": "x = (1 +\n"}),
            Op::Import(k) => json!({"op": "RunWithPath", "source": import_script(*k), "import_kind": format!("{k:?}")}),
            Op::Spin(k) => json!({"op": "Run", "source": spin_script(*k), "spin_kind": format!("{k:?}")}),
            Op::SetFlaky(b) => json!({"op": "SetFlaky", "fails": b}),
            Op::ClearCache => json!({"op": "ClearModuleCache"}),
            Op::MakeNext => json!({"op": "MakeNext", "source": MAKE_NEXT_SCRIPT}),
            Op::PullNext => json!({"op": "Call", "function": "NPULL", "args": []}),
        })
        .collect();
    json!({
        "with_execution_limit_ns": if h.with_limit { json!(LIMIT_NS) } else { Value::Null },
        "run_tests": h.run_tests,
        "modules": MODULES.iter().map(|(n, t)| json!([n, t])).collect::<Vec<_>>(),
        "probes": PROBES,
        "operations": ops,
    })
}

/// Replays an explicit history: every operation is executed as stored; oracles (B) and (C) and
/// the stored expectations of oracle (A) are evaluated.
pub fn replay(doc: &Value) -> (Option<(String, String)>, u64) {
    let sc = &doc["scenario"];
    let ws = HistWorkerState::new("hist-replay");
    let h = History {
        ops: vec![],
        with_limit: !sc["with_execution_limit_ns"].is_null(),
        run_tests: sc["run_tests"].as_bool().unwrap_or(false),
    };
    let mut inst = new_instance(&h, &ws.scratch);
    let mut dg = Digest::new();
    let mut any_failed = false;
    let expected = sc["expected"].as_array().cloned().unwrap_or_default();
    for (i, o) in sc["operations"].as_array().cloned().unwrap_or_default().iter().enumerate() {
        let plan = unwindsim::plan_from_json(&o["fault_plan"]);
        let src = o["source"].as_str().unwrap_or("").to_string();
        // rebuild an executable op
        let (op, source): (Op, Option<String>) = match o["op"].as_str().unwrap_or("") {
            "Run" => (Op::Run { prog: Program::default(), plan, tests: vec![], main_call: None }, Some(src)),
            "RunPlain" => (Op::MakeGen { func: o["make_gen"].as_u64().unwrap_or(0) as usize }, None),
            "CallInstance" => {
                let func: usize = o["function"].as_str().unwrap_or("m0").trim_start_matches('m').parse().unwrap_or(0);
                (Op::CallInstance { func, arg: o["args"][0].as_i64().unwrap_or(0), plan }, None)
            }
            "RunWithPath" => {
                let k = match o["import_kind"].as_str().unwrap_or("") {
                    "Ok" => ImportKind::Ok,
                    "FailTop" => ImportKind::FailTop,
                    "FailTest" => ImportKind::FailTest,
                    "FailMain" => ImportKind::FailMain,
                    "Cycle" => ImportKind::Cycle,
                    "BadSyntax" => ImportKind::BadSyntax,
                    "Missing" => ImportKind::Missing,
                    "BadMain" => ImportKind::BadMain,
                    "Flaky" => ImportKind::Flaky,
                    "FailTopDotted" => ImportKind::FailTopDotted,
                    _ => ImportKind::CaughtFailTop,
                };
                (Op::Import(k), None)
            }
            "SetFlaky" => (Op::SetFlaky(o["fails"].as_bool().unwrap_or(false)), None),
            "ClearModuleCache" => (Op::ClearCache, None),
            "MakeNext" => (Op::MakeNext, None),
            "Call" => {
                let name = o["function"].as_str().unwrap_or("");
                let args = o["args"].as_array().cloned().unwrap_or_default();
                if name == "NPULL" {
                    (Op::PullNext, None)
                } else if name == "GL" {
                    (Op::CallNonCallable, None)
                } else if name == "no_such_function" {
                    (Op::CallMissing, None)
                } else if name == "PULL" {
                    (Op::Pull { plan }, None)
                } else {
                    let func: usize = name.trim_start_matches('f').parse().unwrap_or(0);
                    let a = match args.len() {
                        0 => Args::None,
                        1 => Args::One(args[0].as_i64().unwrap_or(0)),
                        _ => Args::Two,
                    };
                    (Op::Call { func, args: a, plan }, None)
                }
            }
            _ => {
                let name = o["value"].as_str().unwrap_or("");
                if name == "GL" {
                    (Op::ShowGlobals, None)
                } else {
                    let func: usize = name.trim_start_matches("OPD").parse().unwrap_or(0);
                    (Op::Show { func, plan }, None)
                }
            }
        };
        let cap = STEP_CAP
            + expected.get(i).filter(|e| !e.is_null()).map_or(0, |e| {
                let p = unwindsim::prediction_from_json(e);
                400 * p.model_steps + 200 * p.storm_iterations
            });
        let obs = exec_op(&mut inst, &op, source.as_deref(), &ws.clock, true, cap);
        dg.str(&format!("{:?}", obs.result));
        for s in obs.state {
            dg.u64(s as u64);
        }
        let failed = !matches!(&obs.result, Some(Ok(_)));
        if let Some(p) = &obs.panic {
            return (Some(("panic".into(), p.replace('\n', " "))), dg.0);
        }
        if obs.step_cap {
            return (Some(("no-return".into(), format!("operation {i}"))), dg.0);
        }
        if let Some(e) = expected.get(i)
            && !e.is_null()
        {
            let pred = unwindsim::prediction_from_json(e);
            let o2 = unwindsim::Observed {
                markers: obs.markers.clone(),
                caught: obs.caught.clone(),
                dumps: obs.dumps.clone(),
                stdout: obs.stdout.clone(),
                result: obs.result.clone().unwrap(),
                ..Default::default()
            };
            if let Some(x) = unwindsim::compare(&pred, &o2) {
                return (Some((format!("model:{}", x.class), x.detail)), dg.0);
            }
        }
        if let Some(ix) = obs.state.iter().position(|x| *x != 0) {
            return (
                Some((
                    format!("residue:{}", STATE_NAMES[ix]),
                    format!("after operation {i}: {:?}", obs.state),
                )),
                dg.0,
            );
        }
        if failed || any_failed {
            for (pi, (a, b)) in obs.probes.iter().zip(ws.fresh_probes.iter()).enumerate() {
                if a != b {
                    return (
                        Some((
                            "probe-differs".into(),
                            format!("probe {pi} after operation {i}: {a:?} vs fresh {b:?}"),
                        )),
                        dg.0,
                    );
                }
            }
        }
        any_failed |= failed;
    }
    (None, dg.0)
}

// ---------------------------------------------------------------------------------------------
// Worker

pub struct HistWorker {
    ws: HistWorkerState,
    known: KnownFindings,
}

impl HistWorker {
    pub fn new(known: KnownFindings) -> Self {
        Self {
            ws: HistWorkerState::new("hist"),
            known,
        }
    }
}

pub fn features(h: &History, v: &Violation) -> BTreeSet<String> {
    let mut f = BTreeSet::new();
    for op in &h.ops {
        f.insert(format!("op:{}", op.kind()));
    }
    if let Some(op) = h.ops.get(v.op_index) {
        f.insert(format!("at:{}", op.kind()));
    }
    f.insert(format!("ops:{}", h.ops.len()));
    f
}

/// the model's predictions for each op of a history (stored in replay files)
fn expectations(h: &History) -> Vec<Value> {
    let mut out = vec![];
    let mut gl = vec![];
    let mut cur: Option<(Program, Printed)> = None;
    let mut gen_state: Option<(usize, i64, bool)> = None;
    let mut first = true;
    let mut okmod_loaded = false;
    let mut host_model = HostModel::default();
    for op in &h.ops {
        let opts = || ModelOpts { tick_start: 0, finally_on_abrupt_exit: false };
        crate::simmodel::set_okmod_loaded(okmod_loaded);
        if let Some(pr) = host_model.predict(op, h.run_tests) {
            okmod_loaded = crate::simmodel::okmod_loaded();
            out.push(unwindsim::prediction_to_json(&pr));
            continue;
        }
        if matches!(op, Op::Import(ImportKind::Ok)) {
            crate::simmodel::set_okmod_loaded(true);
        }
        match op {
            Op::Run { prog, plan, tests, main_call } => {
                let printed = print_run(prog, first || h.run_tests, tests, *main_call);
                first = false;
                if h.run_tests {
                    gl.clear();
                }
                let p = predict_run(prog, &printed, plan, gl.clone(), tests, *main_call, h.run_tests);
                gl = p.gl.clone();
                cur = Some((prog.clone(), printed));
                out.push(unwindsim::prediction_to_json(&p));
            }
            Op::Call { func, args: Args::One(a), plan } if cur.as_ref().is_some_and(|c| *func < c.0.funcs.len()) => {
                let (p, printed) = cur.as_ref().unwrap();
                let pr = Model::run_entry(p, printed, plan, opts(), Entry::Func(*func, *a), gl.clone());
                gl = pr.gl.clone();
                out.push(unwindsim::prediction_to_json(&pr));
            }
            Op::CallInstance { func, arg, plan } if cur.as_ref().is_some_and(|c| *func < c.0.funcs.len()) => {
                let (p, printed) = cur.as_ref().unwrap();
                let pr = Model::run_entry(p, printed, plan, opts(), Entry::Func(*func, *arg), gl.clone());
                gl = pr.gl.clone();
                out.push(unwindsim::prediction_to_json(&pr));
            }
            Op::MakeGen { func } => {
                gen_state = Some((*func, 0i64, false));
                out.push(Value::Null);
            }
            Op::Pull { plan } => match (gen_state, cur.as_ref()) {
                (Some((func, ix, dead)), Some((p, printed))) if func < p.funcs.len() => {
                    if dead || ix >= 2 {
                        let mut pr = Prediction::default();
                        pr.result = Ok("-99".into());
                        out.push(unwindsim::prediction_to_json(&pr));
                    } else {
                        let pr = Model::run_entry(p, printed, plan, opts(), Entry::Func(func, ix), gl.clone());
                        gl = pr.gl.clone();
                        gen_state = Some((func, ix + 1, pr.result.is_err()));
                        out.push(unwindsim::prediction_to_json(&pr));
                    }
                }
                _ => out.push(Value::Null),
            },
            Op::Show { func, plan } if cur.as_ref().is_some_and(|c| *func < c.0.funcs.len()) => {
                let (p, printed) = cur.as_ref().unwrap();
                let pr = Model::run_entry(p, printed, plan, opts(), Entry::Display(*func), gl.clone());
                gl = pr.gl.clone();
                out.push(unwindsim::prediction_to_json(&pr));
            }
            _ => out.push(Value::Null),
        }
        okmod_loaded = crate::simmodel::okmod_loaded();
    }
    out
}

impl Worker for HistWorker {
    fn run(&mut self, run_seed: u64, index: u64) -> RunReport {
        let h = gen_history(run_seed);
        let ev = evaluate(&h, &self.ws);
        let mut rep = RunReport {
            digest: ev.digest,
            executions: ev.executions,
            sim_units: ev.instructions,
            counters: ev.counters.clone(),
            ..Default::default()
        };
        rep.counters.push(("histories", 1));
        if ev.inconclusive {
            rep.counters.push(("histories.inconclusive_near_limit", 1));
        }
        rep.counters.retain(|(_, v)| *v > 0);
        if let Some(e) = ev.harness_error {
            rep.harness_error = Some(format!("{e}\n{}", serde_json::to_string(&history_to_json(&h)).unwrap_or_default().chars().take(3000).collect::<String>()));
            return rep;
        }
        if ev.failed_ops > 0 {
            let mut d = Digest::new();
            let set: BTreeSet<u64> = ev.sigs.iter().copied().collect();
            for s in &set {
                d.u64(*s);
            }
            d.u64(ev.failed_ops);
            rep.signature = Some(mix(d.0, h.ops.len() as u64));
        }
        if index < 2 {
            rep.sample = Some(json!({"run_seed": run_seed, "history": history_to_json(&h), "log": ev.log}));
        }
        if let Some(v) = ev.violation {
            let (mh, steps) = shrink(&h, &v.class, &self.ws);
            let e1 = evaluate(&mh, &self.ws);
            let e2 = evaluate(&mh, &self.ws);
            let Some(v1) = e1.violation.clone() else {
                rep.harness_error = Some(format!("minimised history lost the violation {}", v.class));
                return rep;
            };
            if e2.violation.as_ref() != Some(&v1) || e1.digest != e2.digest {
                rep.harness_error = Some(format!("violation {} does not replay deterministically", v.class));
                return rep;
            }
            let feats = features(&mh, &v1);
            let known = self.known.matches("histsim", &v1.class, &feats);
            let mut scenario = history_to_json(&mh);
            scenario["expected"] = json!(expectations(&mh));
            rep.violations.push(ViolationReport {
                class: v1.class.clone(),
                detail: v1.detail.clone(),
                scenario,
                extra: json!({
                    "features": feats,
                    "violating_operation": v1.op_index,
                    "shrink_steps": steps,
                    "original_operations": h.ops.len(),
                    "original_violation": {"class": v.class, "detail": v.detail},
                    "log": e1.log,
                }),
                known,
            });
        }
        rep
    }
}

pub fn show(run_seed: u64) {
    let h = gen_history(run_seed);
    println!("{}", serde_json::to_string_pretty(&history_to_json(&h)).unwrap());
    let ws = HistWorkerState::new("hist-show");
    let ev = evaluate(&h, &ws);
    println!("log: {}", serde_json::to_string_pretty(&ev.log).unwrap());
    println!("violation: {:?}", ev.violation);
    println!("harness: {:?}", ev.harness_error);
    println!("fresh probes: {:?}", ws.fresh_probes);
}
