//! The virtual clock and instruction observer (seam H2).
//!
//! All time in a simulated run is this clock: every executed VM instruction is charged a
//! seeded cost, natives may charge extra, and `SimInstant::now()` reads `floor(clock/g)*g`.
//! Per VM entry (each `execute_instructions` activation) the observer records the charges
//! and the clock reads, which is what the C08 oracle is evaluated over.

use crate::rng::mix;
use koto::runtime::verif::VerifSim;
use std::cell::{Cell, RefCell};

/// The payload used to unwind out of a run that exceeded its step cap.
pub struct StepCapExceeded;

/// Piecewise cost profile: cost(ordinal) = base + hash(seed, ordinal) % (band + 1)
#[derive(Clone, Debug, Default)]
pub struct CostProfile {
    pub seed: u64,
    /// (first ordinal of the phase, base cost ns, band ns), sorted by ordinal, first at 0
    pub phases: Vec<(u64, u64, u64)>,
    /// (ordinal, extra ns) one-off stalls, sorted
    pub stalls: Vec<(u64, u64)>,
    /// (ordinal, delta ns) forward clock jumps, sorted
    pub jumps: Vec<(u64, u64)>,
}

impl CostProfile {
    pub fn constant(cost: u64) -> Self {
        Self {
            seed: 0,
            phases: vec![(0, cost, 0)],
            stalls: vec![],
            jumps: vec![],
        }
    }
}

/// Statistics of one interval between two clock reads of one entry
#[derive(Clone, Debug, Default)]
pub struct Interval {
    /// instructions begun by this entry in the interval
    pub n: u64,
    /// true duration
    pub dur: u64,
    /// largest single charge (own instruction incl. everything nested inside it)
    pub max_charge: u64,
}

/// What was recorded for one VM entry
#[derive(Clone, Debug, Default)]
pub struct EntryRecord {
    pub depth: usize,
    pub start: u64,
    pub end: u64,
    /// instructions begun by this entry
    pub instructions: u64,
    /// the true time at which the last own instruction began
    pub last_instruction_start: u64,
    /// largest single own charge
    pub max_charge: u64,
    /// second largest single own charge
    pub second_charge: u64,
    /// completed intervals between consecutive clock reads
    pub intervals: Vec<Interval>,
    /// number of clock reads (the first one is the construction of the deadline)
    pub clock_reads: u64,
    /// true if the entry was left by unwinding past its exit hook (step cap)
    pub open: bool,
    /// the entry read a clock value at or past its own deadline (its timeout fired)
    pub deadline_seen: bool,
    /// the reading that armed the deadline
    pub first_reading: u64,
}

#[derive(Default)]
struct Live {
    rec: EntryRecord,
    cur: Interval,
    interval_start: u64,
    /// time at which the currently executing own instruction began
    instr_start: Option<u64>,
}

pub struct VClock {
    clock: Cell<u64>,
    pub granularity: Cell<u64>,
    ordinal: Cell<u64>,
    pub step_cap: Cell<u64>,
    profile: RefCell<CostProfile>,
    // cursors into the profile
    phase_ix: Cell<usize>,
    stall_ix: Cell<usize>,
    jump_ix: Cell<usize>,
    /// record per-entry statistics (only clocksim needs them)
    pub record_entries: Cell<bool>,
    live: RefCell<Vec<Live>>,
    pub finished: RefCell<Vec<EntryRecord>>,
    pub max_depth: Cell<usize>,
    pub total_clock_reads: Cell<u64>,
    pub stalls_fired: Cell<u64>,
    pub jumps_fired: Cell<u64>,
    pub phase_switches: Cell<u64>,
    /// number of clock reads that returned the same value as the previous read
    pub equal_reads: Cell<u64>,
    last_read: Cell<u64>,
    /// cap on stored finished entry records (the rest is only summarised)
    pub max_records: Cell<usize>,
    /// entries that ran at least this long are always recorded
    pub keep_threshold: Cell<u64>,
    /// the execution limit of the run (to recognise the check that fires)
    pub limit: Cell<u64>,
    /// the instruction ordinal at which the first entry observed its deadline (timeout fired)
    pub fired_at_ordinal: Cell<Option<u64>>,
    pub entries_total: Cell<u64>,
}

impl Default for VClock {
    fn default() -> Self {
        Self {
            clock: Cell::new(0),
            granularity: Cell::new(1),
            ordinal: Cell::new(0),
            step_cap: Cell::new(u64::MAX),
            profile: RefCell::new(CostProfile::constant(10)),
            phase_ix: Cell::new(0),
            stall_ix: Cell::new(0),
            jump_ix: Cell::new(0),
            record_entries: Cell::new(false),
            live: RefCell::new(Vec::new()),
            finished: RefCell::new(Vec::new()),
            max_depth: Cell::new(0),
            total_clock_reads: Cell::new(0),
            stalls_fired: Cell::new(0),
            jumps_fired: Cell::new(0),
            phase_switches: Cell::new(0),
            equal_reads: Cell::new(0),
            last_read: Cell::new(u64::MAX),
            max_records: Cell::new(256),
            keep_threshold: Cell::new(u64::MAX),
            limit: Cell::new(u64::MAX),
            fired_at_ordinal: Cell::new(None),
            entries_total: Cell::new(0),
        }
    }
}

impl VClock {
    /// Resets the clock for a new run
    pub fn reset(&self, profile: CostProfile, granularity: u64, step_cap: u64) {
        self.clock.set(0);
        self.granularity.set(granularity.max(1));
        self.ordinal.set(0);
        self.step_cap.set(step_cap);
        *self.profile.borrow_mut() = profile;
        self.phase_ix.set(0);
        self.stall_ix.set(0);
        self.jump_ix.set(0);
        self.live.borrow_mut().clear();
        self.finished.borrow_mut().clear();
        self.max_depth.set(0);
        self.total_clock_reads.set(0);
        self.stalls_fired.set(0);
        self.jumps_fired.set(0);
        self.phase_switches.set(0);
        self.equal_reads.set(0);
        self.last_read.set(u64::MAX);
        self.entries_total.set(0);
        self.fired_at_ordinal.set(None);
        koto::runtime::verif::reset_entry_depth();
    }

    /// Like `reset`, but virtual time goes on from where it is (plus `gap` ns): what a later
    /// operation on the same long-lived instance sees — a monotonic clock never restarts
    pub fn reset_keep_time(&self, profile: CostProfile, granularity: u64, step_cap: u64, gap: u64) {
        let now = self.clock.get();
        self.reset(profile, granularity, step_cap);
        self.clock.set(now.saturating_add(gap));
    }

    pub fn now_true(&self) -> u64 {
        self.clock.get()
    }

    pub fn instructions(&self) -> u64 {
        self.ordinal.get()
    }

    /// Charges extra virtual time (a slow host call)
    pub fn charge(&self, ns: u64) {
        self.clock.set(self.clock.get().saturating_add(ns));
    }

    /// After a step-cap unwind: close all live entries as `open`
    pub fn abandon(&self) {
        let mut live = self.live.borrow_mut();
        let now = self.clock.get();
        while let Some(mut l) = live.pop() {
            self.close_instruction(&mut l, now);
            let mut cur = std::mem::take(&mut l.cur);
            cur.dur = now - l.interval_start;
            l.rec.intervals.push(cur);
            l.rec.end = now;
            l.rec.open = true;
            self.push_finished(l.rec);
        }
        koto::runtime::verif::reset_entry_depth();
    }

    fn push_finished(&self, rec: EntryRecord) {
        // Short entries that never performed a deadline check cannot matter to any oracle;
        // everything else is always kept.
        let relevant = rec.open
            || rec.deadline_seen
            || rec.clock_reads > 1
            || rec.last_instruction_start.saturating_sub(rec.start) >= self.keep_threshold.get();
        let mut f = self.finished.borrow_mut();
        if relevant || f.len() < self.max_records.get() {
            f.push(rec);
        }
    }

    fn close_instruction(&self, l: &mut Live, now: u64) {
        if let Some(s) = l.instr_start.take() {
            let charge = now - s;
            if charge > l.cur.max_charge {
                l.cur.max_charge = charge;
            }
            if charge > l.rec.max_charge {
                l.rec.second_charge = l.rec.max_charge;
                l.rec.max_charge = charge;
            } else if charge > l.rec.second_charge {
                l.rec.second_charge = charge;
            }
        }
    }
}

impl VerifSim for VClock {
    fn now_ns(&self) -> u64 {
        let now = self.clock.get();
        let g = self.granularity.get();
        let reading = now / g * g;
        self.total_clock_reads.set(self.total_clock_reads.get() + 1);
        if reading == self.last_read.get() {
            self.equal_reads.set(self.equal_reads.get() + 1);
        }
        self.last_read.set(reading);
        if self.record_entries.get()
            && let Some(l) = self.live.borrow_mut().last_mut()
        {
            // A clock read by the innermost live entry: the first one arms the deadline, every
            // later one is a deadline check and closes an interval. The read happens before
            // the instruction that was just counted executes; that instruction belongs to the
            // next interval, which only shifts the count by one.
            l.rec.clock_reads += 1;
            if l.rec.clock_reads == 1 {
                l.rec.first_reading = reading;
            } else if reading >= l.rec.first_reading.saturating_add(self.limit.get()) {
                l.rec.deadline_seen = true;
                if self.fired_at_ordinal.get().is_none() {
                    self.fired_at_ordinal.set(Some(self.ordinal.get()));
                }
            }
            if l.rec.clock_reads > 1 {
                let mut cur = std::mem::take(&mut l.cur);
                cur.dur = now - l.interval_start;
                l.rec.intervals.push(cur);
            }
            l.interval_start = now;
        }
        reading
    }

    fn on_instruction(&self, _depth: usize) {
        let ord = self.ordinal.get();
        if ord >= self.step_cap.get() {
            std::panic::panic_any(StepCapExceeded);
        }
        self.ordinal.set(ord + 1);
        let mut now = self.clock.get();

        if self.record_entries.get()
            && let Some(l) = self.live.borrow_mut().last_mut()
        {
            self.close_instruction(l, now);
            l.rec.instructions += 1;
            l.rec.last_instruction_start = now;
            l.cur.n += 1;
            l.instr_start = Some(now);
        }

        // cost of this instruction
        let p = self.profile.borrow();
        let mut ix = self.phase_ix.get();
        while ix + 1 < p.phases.len() && p.phases[ix + 1].0 <= ord {
            ix += 1;
            self.phase_switches.set(self.phase_switches.get() + 1);
        }
        self.phase_ix.set(ix);
        let (_, base, band) = p.phases[ix];
        let mut cost = base;
        if band > 0 {
            cost += mix(p.seed, ord) % (band + 1);
        }
        let mut six = self.stall_ix.get();
        while six < p.stalls.len() && p.stalls[six].0 <= ord {
            cost = cost.saturating_add(p.stalls[six].1);
            six += 1;
            self.stalls_fired.set(self.stalls_fired.get() + 1);
        }
        self.stall_ix.set(six);
        let mut jix = self.jump_ix.get();
        while jix < p.jumps.len() && p.jumps[jix].0 <= ord {
            cost = cost.saturating_add(p.jumps[jix].1);
            jix += 1;
            self.jumps_fired.set(self.jumps_fired.get() + 1);
        }
        self.jump_ix.set(jix);
        now = now.saturating_add(cost);
        self.clock.set(now);
    }

    fn on_entry(&self, depth: usize) {
        self.entries_total.set(self.entries_total.get() + 1);
        if depth > self.max_depth.get() {
            self.max_depth.set(depth);
        }
        if self.record_entries.get() {
            let now = self.clock.get();
            let mut l = Live::default();
            l.rec.depth = depth;
            l.rec.start = now;
            l.interval_start = now;
            self.live.borrow_mut().push(l);
        }
    }

    fn on_exit(&self, _depth: usize) {
        if self.record_entries.get() {
            let now = self.clock.get();
            let popped = self.live.borrow_mut().pop();
            if let Some(mut l) = popped {
                self.close_instruction(&mut l, now);
                // the interval in progress counts too: its cost ratio is part of the slack
                let mut cur = std::mem::take(&mut l.cur);
                cur.dur = now - l.interval_start;
                l.rec.intervals.push(cur);
                l.rec.end = now;
                self.push_finished(l.rec);
            }
        }
    }
}
