//! Known findings: genuine defects recorded rather than repaired.
//! The file is read-only at run time. An entry matches a *minimised* violation when the class
//! is equal and the scenario's feature set satisfies requires/forbids.

use serde_json::Value;
use std::collections::BTreeSet;

#[derive(Clone, Debug)]
pub struct KnownFinding {
    pub id: String,
    pub property: String,
    pub engine: String,
    pub status: String,
    pub what: String,
    pub class: String,
    pub requires: Vec<String>,
    pub forbids: Vec<String>,
    pub replay: Option<String>,
}

#[derive(Clone, Debug, Default)]
pub struct KnownFindings {
    pub entries: Vec<KnownFinding>,
}

impl KnownFindings {
    pub fn load(path: &str) -> Self {
        let Ok(text) = std::fs::read_to_string(path) else {
            return Self::default();
        };
        let v: Value = serde_json::from_str(&text).expect("known_findings.json is not valid JSON");
        let strs = |v: &Value| -> Vec<String> {
            v.as_array()
                .map(|a| a.iter().filter_map(|x| x.as_str().map(String::from)).collect())
                .unwrap_or_default()
        };
        let entries = v["findings"]
            .as_array()
            .cloned()
            .unwrap_or_default()
            .iter()
            .map(|e| KnownFinding {
                id: e["id"].as_str().unwrap_or("").into(),
                property: e["property"].as_str().unwrap_or("").into(),
                engine: e["engine"].as_str().unwrap_or("").into(),
                status: e["status"].as_str().unwrap_or("open").into(),
                what: e["what"].as_str().unwrap_or("").into(),
                class: e["class"].as_str().unwrap_or("").into(),
                requires: strs(&e["requires"]),
                forbids: strs(&e["forbids"]),
                replay: e["replay"].as_str().map(String::from),
            })
            .collect();
        Self { entries }
    }

    pub fn open_for<'a>(&'a self, engine: &'a str) -> impl Iterator<Item = &'a KnownFinding> {
        self.entries
            .iter()
            .filter(move |e| e.status == "open" && e.engine == engine)
    }

    /// The id of the open finding that explains this (class, features), if any
    pub fn matches(&self, engine: &str, class: &str, features: &BTreeSet<String>) -> Option<String> {
        self.open_for(engine)
            .find(|e| {
                e.class.split('|').any(|c| c == class)
                    && e.requires.iter().all(|r| features.contains(r))
                    && !e.forbids.iter().any(|f| features.contains(f))
            })
            .map(|e| e.id.clone())
    }
}
