#!/bin/bash
# usage: confirm_seeded_cmd.sh <worktree> <mutdir> <crate-for-rs-demos|-> [arc] -- <demo command…>
# General form of confirm_seeded.sh: the demonstration is an arbitrary command (exit 0 = right
# behaviour) run in the worktree; *.rs files of the demo are copied into crates/<crate>/tests/ first.
wt="$1"; mut="$2"; crate="$3"; shift 3; arc=""; if [ "$1" = "arc" ]; then arc=arc; shift; fi; shift
cd "$wt" || exit 2
git checkout -q -- . ; git clean -fdq crates libs
log="$mut/confirm.log"; : > "$log"
if [ "$crate" != "-" ]; then cp "$mut"/demo/*.rs "crates/$crate/tests/" 2>/dev/null; fi
echo "## demo WITHOUT patch: $*" >> "$log"
CARGO_NET_OFFLINE=true RUST_BACKTRACE=0 bash -c "$*" >> "$log" 2>&1; d0=$?
git apply "$mut/patch.diff" || { echo "APPLY FAILED" >> "$log"; exit 2; }
echo "## demo WITH patch" >> "$log"
CARGO_NET_OFFLINE=true RUST_BACKTRACE=0 bash -c "$*" >> "$log" 2>&1; d1=$?
if [ "$crate" != "-" ]; then for f in "$mut"/demo/*.rs; do rm -f "crates/$crate/tests/$(basename "$f")"; done; fi
echo "## existing suite WITH patch" >> "$log"
CARGO_NET_OFFLINE=true cargo test --workspace --no-fail-fast --offline 2>&1 | grep -E "^test result|FAILED|failed|^error" >> "$log"
if [ "$arc" = "arc" ]; then
  echo "## arc suite WITH patch" >> "$log"
  CARGO_NET_OFFLINE=true cargo test --tests --no-default-features --features arc -p koto -p koto_runtime -p koto_memory --no-fail-fast --offline 2>&1 | grep -E "^test result|FAILED|failed|^error" >> "$log"
fi
git checkout -q -- . ; git clean -fdq crates libs
echo "SUMMARY demo_without_patch_exit=$d0 demo_with_patch_exit=$d1 suite_ok_lines=$(grep -c 'test result: ok' $log) suite_failed_lines=$(grep -c 'test result: FAILED' $log)" | tee -a "$log"
