#!/bin/bash
# usage: confirm_seeded.sh <worktree> <mutdir> <test-crate> <test-name> [arc]
# Confirms in a scratch worktree: demo passes without the patch; with the patch the code
# compiles, the existing suite passes and the demo fails. Leaves the worktree clean.
wt="$1"; mut="$2"; crate="$3"; tname="$4"; arc="$5"; case "$crate" in koto) pkg=koto;; *) pkg=koto_$crate;; esac
cd "$wt" || exit 2
git checkout -q -- . ; git clean -fdq crates libs
log="$mut/confirm.log"; : > "$log"
cp "$mut"/demo/*.rs "crates/$crate/tests/" 2>/dev/null
feat=""; [ "$arc" = "arc" ] && feat="--no-default-features --features arc"
echo "## demo WITHOUT patch" >> "$log"
CARGO_NET_OFFLINE=true RUST_BACKTRACE=0 cargo test -p "$pkg" --test "$tname" --offline $feat >> "$log" 2>&1; d0=$?
git apply "$mut/patch.diff" || { echo "APPLY FAILED" >> "$log"; exit 2; }
echo "## demo WITH patch" >> "$log"
CARGO_NET_OFFLINE=true RUST_BACKTRACE=0 cargo test -p "$pkg" --test "$tname" --offline $feat >> "$log" 2>&1; d1=$?
rm -f crates/$crate/tests/seeded*.rs
echo "## existing suite WITH patch" >> "$log"
CARGO_NET_OFFLINE=true cargo test --workspace --no-fail-fast --offline 2>&1 | grep -E "^test result|FAILED|failed|^error" >> "$log"; 
s=$(grep -c "test result: ok" "$log"); f=$(grep -E "^test result: FAILED|^error" "$log" | grep -v "## demo" | wc -l)
if [ "$arc" = "arc" ]; then
  echo "## arc suite WITH patch" >> "$log"
  CARGO_NET_OFFLINE=true cargo test --tests --no-default-features --features arc -p koto -p koto_runtime -p koto_memory --no-fail-fast --offline 2>&1 | grep -E "^test result|FAILED|failed|^error" >> "$log"
fi
git checkout -q -- . ; git clean -fdq crates libs
echo "SUMMARY demo_without_patch_exit=$d0 demo_with_patch_exit=$d1 suite_ok_lines=$s" | tee -a "$log"
