#!/bin/bash
# usage: confirm_seeded_cli.sh <worktree> <mutdir>   — for demonstrations that are .koto scripts run
# with the CLI (exit 0 = right behaviour). Same protocol as confirm_seeded.sh.
wt="$1"; mut="$2"
cd "$wt" || exit 2
git checkout -q -- . ; git clean -fdq crates libs
log="$mut/confirm.log"; : > "$log"
echo "## demo WITHOUT patch" >> "$log"
CARGO_NET_OFFLINE=true cargo run -q -p koto_cli --offline -- "$mut/demo/demo.koto" >> "$log" 2>&1; d0=$?
git apply "$mut/patch.diff" || { echo "APPLY FAILED" >> "$log"; exit 2; }
echo "## demo WITH patch" >> "$log"
CARGO_NET_OFFLINE=true cargo run -q -p koto_cli --offline -- "$mut/demo/demo.koto" >> "$log" 2>&1; d1=$?
echo "## existing suite WITH patch" >> "$log"
CARGO_NET_OFFLINE=true cargo test --workspace --no-fail-fast --offline 2>&1 | grep -E "^test result|FAILED|failed|^error" >> "$log"
git checkout -q -- . ; git clean -fdq crates libs
echo "SUMMARY demo_without_patch_exit=$d0 demo_with_patch_exit=$d1 suite_ok_lines=$(grep -c 'test result: ok' $log) suite_failed_lines=$(grep -c 'test result: FAILED' $log)" | tee -a "$log"
