#!/usr/bin/env python3
"""Determinism proof: every engine, N run seeds, each executed in separate PROCESSES at
different worker counts (different RandomState keys, addresses, scratch paths, thread timing);
the per-run behaviour digests must be identical. Usage: determinism.py [runs-scale] [base seeds…]"""
import os, subprocess, sys, json, time
VERIF = os.path.dirname(os.path.dirname(os.path.abspath(__file__)))
ENGINES = [("rc", "clocksim", 6000), ("rc", "unwindsim", 400), ("rc", "histsim", 2500), ("rc", "modsim", 2500),
           ("rc", "compsim", 8000), ("rc", "seqsim", 3000),
           ("arc", "locksim", 3000), ("arc", "clocksim", 2000), ("arc", "unwindsim", 200)]
scale = float(sys.argv[1]) if len(sys.argv) > 1 else 1.0
seeds = [int(x) for x in sys.argv[2:]] or [1, 2]
out = []
bad = 0
for feature, engine, runs in ENGINES:
    runs = int(runs * scale)
    binp = os.path.join(VERIF, "target", feature, "release", "kotosim")
    for seed in seeds:
        digs = []
        for threads in (1, 16, 5):
            f = f"/tmp/det-{engine}-{feature}-{seed}-{threads}.txt"
            r = subprocess.run([binp, engine, "--runs", str(runs), "--seconds", "0", "--seed", str(seed), "--threads", str(threads),
                                "--digests", f, "--keep-going", "--replay-dir", "/tmp/det-replays"], stdout=subprocess.PIPE, text=True)
            digs.append(open(f).read())
            os.remove(f)
        same = digs[0] == digs[1] == digs[2]
        n = len(digs[0].splitlines())
        mism = 0 if same else sum(1 for a, b, c in zip(*[d.splitlines() for d in digs]) if not (a == b == c))
        bad += mism
        out.append({"engine": engine, "build": feature, "seed": seed, "runs": n, "processes": 3, "worker_counts": [1, 16, 5], "mismatches": mism})
        print(out[-1], flush=True)
json.dump({"when": time.strftime("%Y-%m-%d %H:%M"), "results": out, "total_mismatches": bad}, open(os.path.join(VERIF, "notes", "determinism.json"), "w"), indent=1)
sys.exit(1 if bad else 0)
