#!/bin/bash
# usage: detect_seeded.sh <patch.diff> <property>...   — applies the patch to /repo, runs the
# quick checks of the given properties, and always reverts /repo afterwards.
patch="$1"; shift
cd /repo || exit 2
if [ -n "$(git status --porcelain)" ]; then echo "/repo is not clean"; exit 2; fi
git apply "$patch" || { echo "patch does not apply"; exit 2; }
trap 'git -C /repo checkout -- . ; git -C /repo clean -fdq crates libs 2>/dev/null' EXIT
cd /verif
for p in "$@"; do
  echo "##### check $p"
  timeout 900 ./check "$p" quick --replay-dir /tmp/seeded_replays 2>&1 | grep -v "^replay:\|^\[/repo\|^    \|^\]" | cut -c1-700 | tail -16
  echo "##### exit=${PIPESTATUS[0]}"
done
